#!/usr/bin/env python3
"""Confirms every A/B change of a seeding round (<root>/<Cnn>-out/{A,B}) and files it as the next S numbers."""
import glob, json, os, re, subprocess, sys
root = sys.argv[1]; rnd = sys.argv[2]
nxt = max(int(re.match(r'S(\d+)', os.path.basename(d)).group(1)) for d in glob.glob('/verif/seeded/S*')) + 1
done = []
for out in sorted(glob.glob(f'{root}/C*-out')):
    pid = os.path.basename(out)[:3]
    for sub in ['A', 'B']:
        d = os.path.join(out, sub)
        if not os.path.exists(os.path.join(d, 'patch.diff')): continue
        name = f'S{nxt:02d}-{pid}-r{rnd}{sub.lower()}'
        readme = open(os.path.join(d, 'README.md')).read() if os.path.exists(os.path.join(d, 'README.md')) else ''
        m = re.search(r'(?is)(needs?|trigger|manifest)[^\n]*\n(.{0,400})', readme)
        needs = 'see AGENT_README.md'
        demo_dir = 'examples' if glob.glob(os.path.join(d, '*.rs')) and ('--example' in readme) else 'tests'
        cmd = ['python3', '/verif/tools/seed_eval.py', pid, name, '--root', root, '--sub', sub, '--needs', needs, '--demo-dir', demo_dir]
        if demo_dir == 'examples':
            ex = [os.path.basename(f)[:-3] for f in glob.glob(os.path.join(d, '*.rs'))]
            cmd += ['--demo-cmd', ' && '.join(f"cargo run --offline --features 'interruptible graph_info' --example {e}" for e in ex)]
        elif '--include-ignored' in readme:
            tests = [os.path.basename(f)[:-3] for f in glob.glob(os.path.join(d, '*.rs'))]
            cmd += ['--demo-cmd', ' && '.join(f"cargo test --offline --features 'interruptible graph_info' --test {t} -- --include-ignored" for t in tests)]
        p = subprocess.run(cmd, stdout=subprocess.PIPE, stderr=subprocess.STDOUT)
        last = p.stdout.decode(errors='replace').strip().splitlines()[-1:]
        ok = p.returncode == 0
        print(name, 'CONFIRMED' if ok else 'NOT CONFIRMED', last)
        if ok:
            mp = f'/verif/seeded/{name}/meta.json'; mm = json.load(open(mp)); mm['round'] = int(rnd); json.dump(mm, open(mp, 'w'), indent=1)
            done.append(name); nxt += 1
print('filed:', ','.join(re.match(r'S\d+', d).group(0) for d in done))
