#!/usr/bin/env python3
"""Confirms a seeded change produced by a sub-agent and files it under /verif/seeded/<name>/.

  seed_eval.py <property id> <name> [--demo-cmd "<cargo test ...>"] [--needs "..."]

Works in the agent's scratch worktree /tmp/seed/<id> (never in /repo):
  1. reverts the source change, runs the demonstration: must PASS;
  2. re-applies the change, runs the demonstration: must FAIL;
  3. moves the demonstration aside and runs the repository's own suite: must be 44 passed / 0 failed.
Then copies patch.diff + demo + meta.json to /verif/seeded/<name>/.
"""
import argparse, glob, json, os, re, shutil, subprocess, sys

def sh(cmd, cwd, timeout=1800):
    env = dict(os.environ, CARGO_NET_OFFLINE='true', CARGO_TARGET_DIR=os.path.join(cwd, 'target'))
    try:
        p = subprocess.run(cmd, cwd=cwd, shell=True, env=env, stdout=subprocess.PIPE, stderr=subprocess.STDOUT, timeout=timeout)
        return p.returncode, p.stdout.decode(errors='replace')
    except subprocess.TimeoutExpired as e:
        return 124, (e.stdout or b'').decode(errors='replace') + '\nTIMEOUT'

ap = argparse.ArgumentParser()
ap.add_argument('pid'); ap.add_argument('name')
ap.add_argument('--demo-cmd', default='')
ap.add_argument('--needs', default='')
ap.add_argument('--root', default='/tmp/seed')
ap.add_argument('--sub', default='')
ap.add_argument('--demo-dir', default='tests')
a = ap.parse_args()
W = f'{a.root}/{a.pid}'; O = f'{a.root}/{a.pid}-out' + (f'/{a.sub}' if a.sub else '')
patch = os.path.join(O, 'patch.diff')
assert os.path.exists(patch), 'no patch.diff'
if a.sub:
    # round-2 layout: clean worktree, demo files saved next to the patch
    rc, out = sh('git checkout -q -- . && git clean -fdq -e target', W)
    os.makedirs(os.path.join(W, a.demo_dir), exist_ok=True)
    for f in glob.glob(os.path.join(O, '*.rs')):
        shutil.copy(f, os.path.join(W, a.demo_dir))
demos = [p for p in glob.glob(os.path.join(W, 'tests', '*.rs')) + glob.glob(os.path.join(W, 'examples', 'demo*.rs'))]
demo_cmd = a.demo_cmd or ' && '.join(f"cargo test --offline --features 'interruptible graph_info' --test {os.path.basename(d)[:-3]}" for d in demos if '/tests/' in d)
print('demo files:', demos, '\ndemo cmd:', demo_cmd)
# normalise: make sure the change is applied exactly once
rc, out = sh('git diff --quiet -- src Cargo.toml && test -z "$(git status --porcelain -- src)"', W)
if rc == 0:
    rc, out = sh(f'git apply {patch}', W); assert rc == 0, out
rc, out = sh(f'git apply -R {patch}', W); assert rc == 0, 'cannot revert: ' + out
rc_clean, out_clean = sh(demo_cmd, W)
rc, out = sh(f'git apply {patch}', W); assert rc == 0, out
rc_mut, out_mut = sh(demo_cmd, W)
print(f'demo on unchanged tree: exit {rc_clean}; with the change: exit {rc_mut}')
if rc_clean != 0 or rc_mut == 0:
    print(out_clean[-1500:], '\n-----\n', out_mut[-1500:]); print('NOT CONFIRMED'); sys.exit(1)
# pinned suite with the change, demo moved aside
aside = os.path.join(W, '.aside'); os.makedirs(aside, exist_ok=True)
for d in demos: shutil.move(d, aside)
rc, out = sh('cargo test --workspace --no-fail-fast --offline', W)
for d in demos: shutil.move(os.path.join(aside, os.path.basename(d)), d)
m = re.findall(r'test result: (\w+)\. (\d+) passed; (\d+) failed', out)
passed = sum(int(x[1]) for x in m); failed = sum(int(x[2]) for x in m)
print(f'pinned suite with the change: passed={passed} failed={failed} rc={rc}')
if rc != 0 or passed != 44 or failed != 0:
    print(out[-1500:]); print('NOT CONFIRMED (suite)'); sys.exit(1)
D = f'/verif/seeded/{a.name}'; os.makedirs(D, exist_ok=True)
shutil.copy(patch, os.path.join(D, 'patch.diff'))
for d in demos: shutil.copy(d, D)
if os.path.exists(os.path.join(O, 'README.md')): shutil.copy(os.path.join(O, 'README.md'), os.path.join(D, 'AGENT_README.md'))
tail = [l for l in out_mut.splitlines() if 'panicked' in l or 'FAILED' in l or 'test result' in l][:6]
meta = {
  'property': a.pid, 'name': a.name, 'needs_to_manifest': a.needs,
  'source': 'independent sub-agent given only the property record and a scratch worktree',
  'confirmed': {'demo_cmd': demo_cmd, 'demo_unchanged_exit': rc_clean, 'demo_with_change_exit': rc_mut, 'demo_failure_excerpt': tail,
                'pinned_suite_with_change': f'{passed} passed / {failed} failed'},
  'detected_by': [],
}
json.dump(meta, open(os.path.join(D, 'meta.json'), 'w'), indent=1)
print('CONFIRMED ->', D)
