#!/usr/bin/env python3
"""Validates MANIFEST.json and every evidence file against the schemas (python3-vt has jsonschema)."""
import json, sys, glob, jsonschema
ok = True
m = json.load(open('/verif/MANIFEST.json'))
jsonschema.validate(m, json.load(open('/root/.vp/MANIFEST.schema.json')))
print('MANIFEST.json valid:', len(m['checks']), 'checks')
es = json.load(open('/root/.vp/EVIDENCE.schema.json'))
for c in m['checks']:
    p = c['evidence_file']
    try:
        e = json.load(open(p))
        jsonschema.validate(e, es)
        cov = e['coverage']
        print(f"{p}: ok tier={e['tier']} states={cov.get('states')} transitions={cov.get('transitions')} traces={cov.get('traces_validated_against_impl')} nontrivial={cov.get('distinct_nontrivial')} exhaustive={cov.get('exhaustive')} viol={e.get('violations')} wall={e['wall_s']:.1f}")
    except Exception as ex:
        ok = False
        print(f"{p}: INVALID {str(ex)[:200]}")
sys.exit(0 if ok else 1)
