#!/usr/bin/env python3
"""Generates /verif/MANIFEST.json (kept in one place so that the 19 entries stay consistent)."""
import json

S = "Engine S: stateless exhaustive DFS over environment choice lists (completion order, poll timing incl. late/spurious polls, ready-on-first-poll, interrupt timing, tokio budget) driving the real future under a hand-rolled controlled executor"
C = "Engine C: the same explorer with the stream as subject and the consumer (poll_next, FnRef drops in any number/order, stream drop, interrupt) as environment"
B = "Engine B: exhaustive enumeration of builder inputs / call sequences run through the real FnGraphBuilder and compared with a reference model"

TRUST_RUN = "Trusted: tokio mpsc/RwLock (exercised, not explored inside), futures-util combinators (exercised), rustc. Bounded to the graph sizes, option menus, enumerated families and deviation bounds written into the evidence file (coverage.spaces); nothing is claimed beyond them."
TRUST_BUILD = "Trusted: petgraph/daggy primitives as used by the reference comparison (only raw edge lists are read), the harness' reference models. Bounded to the sizes written into the evidence file."

props = {
 "C01": ("S+C", "Exhaustive over every labelled DAG x every read/write declaration (n<=3 over 2 types, n=4 over 1 type), built through the real builder, then every schedule of the concurrent _with APIs and the streams incl. interrupts, failing subsets and StreamOpts builder call orders; plus large enumerated families (two writers up to 300 unrelated functions apart, up to 130 data types, arithmetic irregular DAGs on 70/100 nodes, declared shapes of 256/257/300 functions) under five base schedules; oracle computed from the declarations only: no conflicting pair in flight at any Start/yield.", "4.C01", TRUST_RUN, "stateless schedule enumeration (DFS over environment choices) of the real code + declaration-level conflict oracle"),
 "C02": ("S+C", "Exhaustive over all labelled DAGs up to n=4 (quick) / n=5 (thorough), all 20 future-returning methods and 4 streams, both orders, limits, every interrupt position and failing subset (n<=3/4): at every hand-out all transitive user-edge predecessors have finished (FnRefs dropped).", "4.C02", TRUST_RUN, "stateless schedule enumeration of the real code + transitive-closure oracle"),
 "C03": ("S+C", "Same executions as C02 plus wide families (antichain, fans, two-depth fans, comb, bipartite, chain, tree up to 257/1025 nodes) with <=1 deviation from four base schedules, every topologically labelled DAG on 6 nodes (all isomorphism classes), 675 irregular graphs under schedules that keep a maximum antichain in flight, large irregular graphs: no second hand-out, every function handed out in clean runs, and no clean run that can never hand out a function.", "4.C03", TRUST_RUN, "stateless schedule enumeration + deviation-bounded exploration of wide graphs"),
 "C04": ("S", "All shapes from the empty graph up, all 20 methods, limits, every interrupt position/strategy/include flag, every failing subset, <=2 spurious polls, fresh waker per poll, tokio cooperative budget exhausted inside a poll (real tokio code path), wide families incl. everything-fails, wide graphs polled inside a tokio task (budget 128..125 per poll): the future always returns, never panics, is never pending without wake-up while nothing is left to complete, and every started user future has ended at return.", "4.C04", TRUST_RUN, "stateless schedule enumeration with deadlock / lost-wake-up / livelock detection in a controlled executor"),
 "C05": ("C", "Every consumer behaviour on all shapes n<=4 (quick) / 5 (thorough): any interleaving of poll_next and FnRef drops (several between polls), stream dropped at every point, spurious polls, fresh wakers, exhausted tokio budget, wide families with hold-everything-then-drop-everything consumers, wide graphs polled inside a tokio task: Pending without wake-up only if every unyielded function is still blocked; parked consumer implies ended stream; None exactly after all yielded; no panic.", "4.C05", TRUST_RUN + " Cross-thread FnRef drops are covered by the reduction argument of DESIGN 2.2 (a drop and a poll share only the done channel).", "stateless consumer-behaviour enumeration of the real stream"),
 "C06": ("B+S+C", "Static half: every edge of every built graph (C11's space) that the user did not add is a Data edge between conflicting functions. Dynamic half: at every idle point (Pending, no wake-up) of every unlimited, uninterrupted, non-failing concurrent run / stream, every function whose built-graph predecessors finished has been started.", "4.C06", TRUST_RUN, "exhaustive input enumeration + stateless schedule enumeration with an idle-point oracle"),
 "C07": ("S", "Every non-empty failing subset x shape (n<=3 quick, 4 thorough) x 12 try APIs x order x limit, graphs with data-conflict edges, failure+interrupt, exhausted tokio budget on the failure path, wide all-fail antichains (result channel sizing), wide graphs polled inside a tokio task (cooperative budget 128..125 per poll) with one failing function that has a successor: errors returned = started failing functions exactly once, nothing ordered after a failed function starts, in-flight work finishes before return, try_fold stops at the first error.", "4.C07", TRUST_RUN, "stateless schedule enumeration x exhaustive fault-set enumeration"),
 "C08": ("S+C", "Interrupt offered at every inter-poll point incl. before the first poll, 10 _with APIs and the interruptible streams x 9 strategy/include combinations x order x limit, wide and irregular graphs with everything in flight completing in the window of the signal (also inside a tokio task): number of functions started after the signal within the stated bound, started functions finish and are reported, call returns; IgnoreInterruptions and stream_with checked differentially (trace set with signal = trace set without).", "4.C08", TRUST_RUN + " The reading of the bounds was validated against interruptible 0.2.4.", "stateless schedule enumeration with the signal as an environment action + differential trace-set comparison"),
 "C09": ("S", "On every execution of the plain, interrupted and failing run spaces: fn_ids_processed = start order, fn_ids_not_processed = complement in insertion order, state = Finished iff all processed, control variants Continue iff Finished and nothing broke.", "4.C09", TRUST_RUN, "stateless schedule enumeration + outcome-vs-trace oracle"),
 "C10": ("S", "limit in {None,0,1,2,3} x 12 concurrent and 8 fold methods x order x shapes (n<=4/5), with failures and interrupts, wide families with limits up to 8: in-flight count never exceeds the limit (1 for folds), every limited run completes.", "4.C10", TRUST_RUN, "stateless schedule enumeration + in-flight counter oracle"),
 "C11": ("B", "Every (labelled DAG, edge insertion order, edge kinds, declaration over 2 types) input up to n=3 and n=4 over 1 type (quick), n=4 over 2 types / n=5 over 1 type / n=3 over 3 types (thorough): build() does not panic, functions sit under the ids add_fn returned, user edges kept with kinds, extra edges are Data between conflicting functions, graph acyclic, every conflicting pair joined by a path.", "4.C11", TRUST_BUILD, "exhaustive bounded input enumeration against a reference model"),
 "C12": ("B", "Same inputs: the Data edge set equals TR(U + R) \\ U where R orders unordered conflicting pairs by (logic rank, insertion index); building twice gives == graphs and equal ranks; every single-call mutation of the builder call sequence (function, endpoint, kind) gives a != graph.", "4.C12", TRUST_BUILD, "exhaustive bounded input enumeration against an independent characterisation (transitive reduction)"),
 "C13": ("B", "Every labelled DAG to n=5 (quick) / 6 (thorough) with every edge insertion permutation for n<=4, with and without declarations, plus chains, stars, trees, bipartite, complete, layered and diamond families to n=40: ranks() equals the longest-path DP.", "4.C13", TRUST_BUILD, "exhaustive bounded input enumeration against longest-path DP"),
 "C14": ("B", "Every built graph of C11's space: iter, iter_rev, toposort, map, fold, try_fold, for_each, try_for_each, iter_insertion* visit each function once in an order consistent with every built edge; try_fold/try_for_each with the failure injected at every position return that error after exactly that many invocations; plus every history of up to 4 sequential calls (complete, cut short or failing at every position, an async run) on one graph value, verdict on the last call.", "4.C14", TRUST_BUILD, "exhaustive bounded input enumeration x fault position enumeration"),
 "C15": ("S+C", "Histories on one graph value: every first run (15 API/option combinations, every node of its DFS tree as abort point, streams incl. dropping the stream anywhere) followed by the full DFS of every second run (8 combinations), compared choice-for-choice with the same second run on a freshly built graph; later second runs see all earlier ones as history.", "4.C15", TRUST_RUN, "exhaustive history enumeration with a differential (fresh-graph) oracle"),
 "C16": ("B", "Explicit-state search over all sequences of add_logic_edge/add_contains_edge calls (self edges, repeats, reversed pairs) up to length 5 (n=2), 4 (n=3), 3 (n=4) (one longer in thorough), single and batch forms, plus all sequences over five representative functions at 5..129 (257) functions with functions added up front and lazily between the calls, plus the grow-a-DAG probe search: accept/reject results and the built edge set equal a map + reachability model.", "4.C16", TRUST_BUILD, "explicit-state search over operation sequences against a reference model"),
 "C17": ("B", "Every built graph of C11's quick space: GraphInfo::from_graph has mapped nodes in insertion order and exactly the raw edges with kinds; serde_yaml_ng round trip gives an equal value; iter/iter_rev are (reverse) topological.", "4.C17", TRUST_BUILD + " serde_yaml_ng is exercised, not verified.", "exhaustive bounded input enumeration incl. serialisation round trip"),
 "C18": ("B", "Guarded pop counter of RankCalc on every labelled DAG to n=5 (quick) / 6 (thorough) and on complete, layered (2-4 wide), diamond-chain and bipartite families to n=64 (96 thorough): each function popped <= n times, total <= n^2+n, with a hook-side abort so that a path-exponential implementation is reported instead of hanging.", "4.C18", TRUST_BUILD + " Uses the verif_hooks counter in RankCalc::calc.", "exhaustive bounded input enumeration with an instrumented step counter"),
 "C20": ("S+C", "Two &self runs (6 future configurations and 2 streams, 36 unordered pairs) on one shared graph driven by one explorer: every interleaving within the switch bound (unbounded for n<=1, 2 for n=2, deviation-bounded for n=3) and every environment answer of both; three simultaneous runs on chains, antichains, combs, fan-ins, layered graphs and diamond chains of 9..66 (130) functions; each run's projection is replayed alone on a fresh graph and must be identical (trace, menus, result).", "4.C20", TRUST_RUN + " Runs on different OS threads are modelled at poll granularity (FnGraph exposes no interior mutability).", "context-bounded interleaving of two real runs with a differential (solo replay) oracle"),
}

engines = [
 {"name": "S", "path": "harness/src/engine_s.rs", "serves_properties": ["C01","C02","C03","C04","C06","C07","C08","C09","C10","C15","C20"], "kind_free_text": S},
 {"name": "C", "path": "harness/src/engine_c.rs", "serves_properties": ["C01","C02","C03","C05","C06","C08","C15","C20"], "kind_free_text": C},
 {"name": "B", "path": "harness/src/props_build.rs", "serves_properties": ["C06","C11","C12","C13","C14","C16","C17","C18"], "kind_free_text": B},
]

TWO_BUILDS = " Checked on two builds of fn_graph: with the `interruptible` feature (all of the above) and with the crate's default feature set (second harness binary: the same spaces restricted to what that API can express, DESIGN 2.5)."
checks = []
for pid, (eng, text, ref, note, tech) in props.items():
    if pid in ("C01","C02","C03","C04","C05","C06","C07","C09","C10","C15","C20"):
        text += TWO_BUILDS
    checks.append({
        "property_id": pid,
        "quick_cmd": f"./check {pid} quick",
        "thorough_cmd": f"./check {pid} thorough",
        "evidence_file": f"/verif/evidence/{pid}.json",
        "replay_cmd_template": "./check replay {path}",
        "engine": eng,
        "level_claimed": {"category": "model_checking", "text": text, "design_ref": ref},
        "level_note": note,
        "technique": tech,
    })

manifest = {
 "version": 1,
 "setup_cmd": "cd /verif && ./check build",
 "hooks": {
   "guard": "cargo feature verif_hooks",
   "enable": "the harness crate depends on /repo by path with features [async, graph_info, verif_hooks] plus, in the first of its two builds, interruptible; every ./check rebuilds both from /repo's working tree",
   "baseline_off_cmd": "cd /repo && (cargo nextest run --workspace --no-fail-fast --offline || cargo test --workspace --no-fail-fast --offline)",
   "source_commits": ["64ccc2dc68a84c8b1cfc1189ecd43d16f3d72b65"],
   "add_only": True,
 },
 "engines": engines,
 "checks": checks,
 "not_applicable": [
   {"property_id": "C19", "reason": "Send/Sync membership of FnGraph, FnRef and the opaque future/stream types is decided by rustc's trait solver at compile time; there is no execution, schedule or state space to enumerate, so bounded exhaustive exploration cannot decide it (a compile-time assertion would, which is a different technique). See DESIGN.md 4.C19."}
 ],
 "notes": "Exit codes of every check: 0 held, 1 violation (VIOLATION line + replay file under /verif/replays), 2 machinery problem (never a verdict). Three genuine defects were found and repaired by fix: commits in /repo (KNOWN_FINDINGS.txt); there are no open known findings. ./check selftest applies the mutants under /verif/mutants and the seeded changes under /verif/seeded to scratch copies and requires detection.",
}
json.dump(manifest, open("/verif/MANIFEST.json", "w"), indent=1)
print("wrote MANIFEST.json with", len(checks), "checks")
