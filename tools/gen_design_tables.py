#!/usr/bin/env python3
"""Fills the generated sections of DESIGN.md (between BEGIN/END GENERATED markers) from
mutants/expect.json, seeded/*/meta.json, mutants/selftest_result.json (if present) and evidence/*.json."""
import json, glob, os, re, subprocess

V = '/verif'
expect = json.load(open(f'{V}/mutants/expect.json'))
result = {}
rp = f'{V}/mutants/selftest_result.json'
if os.path.exists(rp):
    result = json.load(open(rp))

def first_line_of_patch(path):
    files = sorted(set(re.findall(r'^\+\+\+ b/(\S+)', open(path).read(), re.M)))
    return ', '.join(f.replace('src/', '') for f in files)

def verified(name, exp):
    r = result.get(name)
    if not r or 'checks' not in r: return ''
    det = sorted(c for c, x in r['checks'].items() if x['exit'] == 1)
    if name.startswith('B'):
        bad = sorted(c for c, x in r['checks'].items() if x['exit'] != 0)
        return 'no alarm in any of the 19 checks' if not bad else 'ALARM: ' + ', '.join(bad)
    missing = [c for c in exp if c not in det]
    return 'all reported' if not missing else 'NOT reported by ' + ', '.join(missing)

out = []
out.append('### 8.1 The harness\' own mutants (`mutants/*.patch`)\n')
out.append('Each compiles and keeps the pinned suite at 44/44. "reported by" lists every check that exits 1 on it (quick tier); the first one is the property the mutant was written against.\n')
out.append('| mutant | files | reported by | last self-test |')
out.append('|---|---|---|---|')
for name in sorted(expect):
    if name.startswith('B'): continue
    p = f'{V}/mutants/{name}.patch'
    out.append(f'| {name} | {first_line_of_patch(p)} | {", ".join(expect[name])} | {verified(name, expect[name])} |')
out.append('')
out.append('M08b, M10 and M23 are the reverted repairs of D1, D2 and D3. M23b removes the pop hook as well and M27 makes a poll spin forever: both are caught by the watchdogs of §7. An earlier candidate (rank relaxation visiting each child once) was dropped because the pinned suite itself catches it; removing the empty-graph release in the *fold* family is an equivalent mutant (the sender is owned by the scheduler and dropped when it ends).\n')
out.append('### 8.2 Property-preserving changes (`mutants/B*.patch`) — no check may raise an alarm\n')
out.append('B01–B07 were written here (internal event order, queue order, capacities, equivalent algorithms). B11–B16 and B21–B29 are substantial refactorings, and B31–B36 deliberate changes of behaviour that no property pins down (hand-out order among simultaneously ready functions, tie-breaks of the sequential walks, order of the returned errors and no further starts after a failure, wake-up / batching / lazy preload behaviour, storage order of Data edges, fewer starts and earlier return after a failure), written by sub-agents that were asked for a non-trivial but strictly behaviour-preserving change in one area each (queuer/scheduler plumbing with `recv_many` and an atomic counter; `stream_internal` on a `VecDeque`; the augmenter on reachability bit sets; a topological-pass rank computation; error collection in a mutex; an own topological walker for all sequential iterators; the second batch is described at the end of the history in §8.3) and that validated them differentially against the original; their READMEs are next to the patches. All 19 checks (quick tier) exit 0 on every one of them. After the inside-poll dimensions of §2.6 and the mixed-form histories of C16 had been added (session 5) there was no time for the full matrix again (about 6 minutes per change): B01–B36 were re-run against C08 with the first version of the mid-poll oracle, and the nine large refactorings B21–B29 and the six changes of unspecified behaviour B31–B36 — among them the hand-written `FuturesUnordered` loop, the fold paths as plain loops and the hand-written ready stream, the ones most likely to dequeue or wake differently — against C04, C08 and C20 with the final harness: no alarm. The remaining (change, check) cells of the table are from the harness as it was before those additions.\n')
out.append('| change | files | result |')
out.append('|---|---|---|')
for name in sorted(expect):
    if not name.startswith('B'): continue
    p = f'{V}/mutants/{name}.patch'
    out.append(f'| {name} | {first_line_of_patch(p)} | {verified(name, []) or "(not in the last self-test run)"} |')
out.append('')
out.append('### 8.3 Independently seeded changes (`seeded/S*/`)\n')
out.append(open(f'{V}/tools/seeding_history.md').read())
out.append('| seeded change | property | needs to manifest | reported by | last self-test |')
out.append('|---|---|---|---|---|')
for d in sorted(glob.glob(f'{V}/seeded/S*')):
    m = json.load(open(os.path.join(d, 'meta.json')))
    name = os.path.basename(d)
    det = m.get('detected_by', [])
    own = m['property']
    det = [own] + [c for c in det if c != own] if own in det else det
    shown = ", ".join(det) if det else "**none (known miss)**"
    if m.get('detect_tier'):
        shown += f" ({m['detect_tier']} tier only)"
    out.append(f'| {name} | {own} | {m.get("needs_to_manifest", "")} | {shown} | {verified(name, det) if det else "known miss"} |')
out.append('')
tables = '\n'.join(out)

# costs
rows = []
for f in sorted(glob.glob(f'{V}/evidence/C*.json')):
    e = json.load(open(f)); c = e['coverage']
    rows.append(f"| {e['property_id']} | {e['tier']} | {c.get('evaluations', 0):,} | {c.get('states', 0):,} | {c.get('transitions', 0):,} | {c.get('distinct_nontrivial', 0):,} | {str(c.get('exhaustive')).lower()} | {e['wall_s']:.1f} |")
costs = ['Measured by the committed evidence files (16 cores; wall time includes the run of the second harness binary of §2.5 and excludes the incremental `cargo build` of the two binaries, about 15 s after an edit of `/repo`, 0.5 s otherwise; cold build of all dependencies, twice, about a minute):\n',
         '| property | tier | executions | states | transitions | distinct non-trivial | exhaustive | wall s |', '|---|---|---|---|---|---|---|---|'] + rows
tp = f'{V}/tools/thorough_times.md'
if os.path.exists(tp):
    costs += ['', open(tp).read()]
costs = '\n'.join(costs)

s = open(f'{V}/DESIGN.md').read()
def put(s, tag, body):
    b, e = f'<!-- BEGIN GENERATED {tag} -->', f'<!-- END GENERATED {tag} -->'
    if b in s:
        return s[:s.index(b) + len(b)] + '\n' + body + '\n' + s[s.index(e):]
    return s.replace(f'@@{tag}@@', f'{b}\n{body}\n{e}')
s = put(s, 'DETECTION_TABLES', tables)
s = put(s, 'COSTS', costs)
open(f'{V}/DESIGN.md', 'w').write(s)
print('DESIGN.md tables regenerated')
