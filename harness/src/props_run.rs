//! Input spaces and foci of the run-half properties (C01 - C10).
use crate::{
    engine_c::{CBase, CCfg, SApi},
    engine_s::{Api, Base, Kind, RunCfg, Strat},
    explore::{Focus, JobCfg, Space, Stats},
    graphs::{dags, decl_count, decl_decode, family_spec, max_antichain, topo_dag_specs, Family, Spec},
    oracle::{CFacts, Facts},
};

// ---------------------------------------------------------------------------
// graph inputs

/// Every labelled DAG on n nodes (kinds alternate), in the given edge order and,
/// if `both_orders`, also with the edge list reversed and all kinds flipped.
pub fn shape_specs(n: usize, both_orders: bool) -> Vec<Spec> {
    let ds = dags(n);
    let mut v = Vec::with_capacity(ds.len() * 2);
    for i in 0..ds.len() {
        let e = ds.edges(i);
        let first = Spec::plain(n, &e);
        if both_orders && !e.is_empty() {
            // second variant: edges inserted in reverse order, and every edge with the other
            // kind (logic <-> contains) than in the first variant
            let mut second = first.clone();
            second.edges.reverse();
            for ed in second.edges.iter_mut() {
                ed.2 = !ed.2;
            }
            v.push(first);
            v.push(second);
        } else {
            v.push(first);
        }
    }
    v
}

pub fn shapes_upto(nmin: usize, nmax: usize, both_orders: bool) -> Vec<Spec> {
    (nmin..=nmax).flat_map(|n| shape_specs(n, both_orders)).collect()
}

/// Every (labelled DAG, declaration over t types) pair on n nodes.
pub fn decl_specs(n: usize, t: usize) -> Vec<Spec> {
    let ds = dags(n);
    let nd = decl_count(n, t);
    let mut v = Vec::with_capacity(ds.len() * nd);
    for i in 0..ds.len() {
        let e = ds.edges(i);
        for d in 0..nd {
            let mut s = Spec::plain(n, &e);
            s.decl = decl_decode(n, t, d);
            v.push(s);
        }
    }
    v
}

// ---------------------------------------------------------------------------
// configuration menus

pub const LIM_NONE: [Option<usize>; 1] = [None];

fn conc(a: &Api) -> bool {
    a.concurrent()
}

/// Plain runs: no interrupt armed, no failing function.
pub fn cfgs_plain(n: usize, apis: &[Api], limits: &[Option<usize>], revs: &[bool]) -> Vec<JobCfg> {
    let mut v = vec![];
    for &api in apis {
        let lims: &[Option<usize>] = if conc(&api) { limits } else { &LIM_NONE };
        let rv: &[bool] = if api.with { revs } else { &[false] };
        for &rev in rv {
            for &limit in lims {
                let mut c = RunCfg::plain(api, n);
                c.rev = rev;
                c.limit = limit;
                v.push(JobCfg::S(c));
            }
        }
    }
    v
}

pub const STRATS_FULL: [(Strat, bool); 9] = [
    (Strat::Finish, true),
    (Strat::Finish, false),
    (Strat::NextN(0), true),
    (Strat::NextN(0), false),
    (Strat::NextN(1), true),
    (Strat::NextN(1), false),
    (Strat::NextN(2), true),
    (Strat::NextN(3), false),
    (Strat::Ignore, true),
];

pub const STRATS_LIGHT: [(Strat, bool); 4] = [(Strat::Finish, true), (Strat::Finish, false), (Strat::NextN(1), true), (Strat::Ignore, false)];

/// Interrupt armed at every inter-poll point (incl. before the first poll).
pub fn cfgs_interrupt(n: usize, apis: &[Api], limits: &[Option<usize>], revs: &[bool], strats: &[(Strat, bool)]) -> Vec<JobCfg> {
    let mut v = vec![];
    for &api in apis.iter().filter(|a| a.with) {
        let lims: &[Option<usize>] = if conc(&api) { limits } else { &LIM_NONE };
        for &rev in revs {
            for &limit in lims {
                for &(strat, include) in strats {
                    let mut c = RunCfg::plain(api, n);
                    c.rev = rev;
                    c.limit = limit;
                    c.strat = strat;
                    c.include = include;
                    c.interrupt = true;
                    v.push(JobCfg::S(c));
                }
            }
        }
    }
    v
}

/// Every non-empty failing subset, try APIs only.
pub fn cfgs_fail(n: usize, apis: &[Api], limits: &[Option<usize>], revs: &[bool]) -> Vec<JobCfg> {
    let mut v = vec![];
    if n == 0 {
        return v;
    }
    for &api in apis.iter().filter(|a| a.is_try()) {
        let lims: &[Option<usize>] = if conc(&api) { limits } else { &LIM_NONE };
        let rv: &[bool] = if api.with { revs } else { &[false] };
        for &rev in rv {
            for &limit in lims {
                for m in 1u32..(1 << n) {
                    let mut c = RunCfg::plain(api, n);
                    c.rev = rev;
                    c.limit = limit;
                    c.fail = (0..n).map(|i| m >> i & 1 == 1).collect();
                    v.push(JobCfg::S(c));
                }
            }
        }
    }
    v
}

/// One failing function and an armed interrupt at the same time.
pub fn cfgs_fail_interrupt(n: usize, apis: &[Api], strats: &[(Strat, bool)]) -> Vec<JobCfg> {
    let mut v = vec![];
    for &api in apis.iter().filter(|a| a.is_try() && a.with) {
        for &(strat, include) in strats {
            for fi in 0..n {
                let mut c = RunCfg::plain(api, n);
                c.strat = strat;
                c.include = include;
                c.interrupt = true;
                c.fail = (0..n).map(|i| i == fi).collect();
                v.push(JobCfg::S(c));
            }
        }
    }
    v
}

/// Streams without interrupt.
pub fn cfgs_stream_plain(apis: &[SApi], revs: &[bool], spurious: u8, fresh: bool, drop_stream: bool) -> Vec<JobCfg> {
    let mut v = vec![];
    for &api in apis {
        let rv: &[bool] = if api.takes_opts() { revs } else { &[false] };
        for &rev in rv {
            let mut c = CCfg::plain(api);
            c.rev = rev;
            c.spurious = spurious;
            c.fresh_waker = fresh;
            c.drop_stream = drop_stream;
            v.push(JobCfg::C(c));
            if api == SApi::StreamWithInterruptible {
                // an ineffective receiver is attached but never signalled
                let mut c2 = CCfg::plain(api);
                c2.rev = rev;
                c2.strat = Strat::Ignore;
                c2.spurious = spurious;
                c2.fresh_waker = fresh;
                c2.drop_stream = drop_stream;
                v.push(JobCfg::C(c2));
            }
        }
    }
    v
}

pub fn cfgs_stream_interrupt(revs: &[bool], strats: &[(Strat, bool)]) -> Vec<JobCfg> {
    let mut v = vec![];
    for &rev in revs {
        for &(strat, include) in strats {
            let mut c = CCfg::plain(SApi::StreamWithInterruptible);
            c.rev = rev;
            c.strat = strat;
            c.include = include;
            c.interrupt = true;
            v.push(JobCfg::C(c));
        }
    }
    // stream_with ignores the interruptibility fields altogether
    for &(strat, include) in strats.iter().take(2) {
        let mut c = CCfg::plain(SApi::StreamWith);
        c.strat = strat;
        c.include = include;
        c.interrupt = true;
        v.push(JobCfg::C(c));
    }
    v
}

/// The options must not depend on the order in which the StreamOpts builder methods are
/// called: every non-default call order, with non-default values for all three settings.
pub fn cfgs_opts_orders(n: usize, apis: &[Api], limits: &[Option<usize>], with_streams: bool) -> Vec<JobCfg> {
    let mut v = vec![];
    let combos: [(Strat, bool, bool); 3] = [(Strat::Finish, false, true), (Strat::NextN(1), true, true), (Strat::Non, true, false)];
    for order in 1..6u8 {
        for &api in apis.iter().filter(|a| a.with) {
            let lims: &[Option<usize>] = if conc(&api) { limits } else { &LIM_NONE };
            for &limit in lims {
                for &(strat, include, interrupt) in &combos {
                    let mut c = RunCfg::plain(api, n);
                    c.rev = true;
                    c.limit = limit;
                    c.strat = strat;
                    c.include = include;
                    c.interrupt = interrupt;
                    c.opts_order = order;
                    v.push(JobCfg::S(c));
                }
            }
        }
        if with_streams {
            let mut c = CCfg::plain(SApi::StreamWith);
            c.rev = true;
            c.opts_order = order;
            v.push(JobCfg::C(c));
            let mut c = CCfg::plain(SApi::StreamWithInterruptible);
            c.rev = true;
            c.strat = Strat::Finish;
            c.interrupt = true;
            c.opts_order = order;
            v.push(JobCfg::C(c));
        }
    }
    v
}

/// Mid-size graphs: every topologically labelled DAG on n nodes (all isomorphism classes),
/// explored with a deviation bound from several base schedules instead of exhaustively.
pub fn mid_spaces(tier: &str, futures: bool, streams: bool, limit: Option<usize>) -> Vec<Space> {
    let mut v = vec![];
    let plans: Vec<(usize, usize, bool)> = if tier == "thorough" { vec![(6, 2, true), (7, 1, false)] } else { vec![(6, 1, false)] };
    for (n, dev, full_menu) in plans {
        let cfgs = move |s: &Spec| {
            let mut c = vec![];
            let anti = max_antichain(s.n, &s.user_edges());
            if futures {
                let fe = Api { kind: Kind::ForEach, mutable: false, with: true };
                let tm = Api { kind: Kind::TryForEach, mutable: true, with: false };
                let mut menu: Vec<(Api, Base, bool)> = vec![(fe, Base::Eager, false), (fe, Base::Batch, false), (fe, Base::ReverseBatch, true), (tm, Base::Batch, false), (fe, Base::Avoid, false)];
                if full_menu {
                    menu.extend([(fe, Base::Batch, true), (fe, Base::AllImmediate, false), (tm, Base::ReverseBatch, false), (tm, Base::Eager, false)]);
                }
                for (api, base, rev) in menu {
                    if rev && !api.with {
                        continue;
                    }
                    let mut r = RunCfg::plain(api, s.n);
                    r.base = base;
                    r.rev = rev;
                    r.limit = limit;
                    r.imm_choice = false;
                    if base == Base::Avoid {
                        r.avoid = anti.clone();
                    }
                    c.push(JobCfg::S(r));
                }
            }
            if streams {
                let mut menu = vec![(CBase::Eager, false), (CBase::HoldThenDropAll, false), (CBase::DropFirst, true), (CBase::Avoid, false)];
                if full_menu {
                    menu.extend([(CBase::HoldThenDropAll, true), (CBase::DropFirst, false)]);
                }
                for (base, rev) in menu {
                    let mut cc = CCfg::plain(SApi::StreamWith);
                    cc.base = base;
                    cc.rev = rev;
                    if base == CBase::Avoid {
                        cc.avoid = anti.clone();
                    }
                    c.push(JobCfg::C(cc));
                }
            }
            c
        };
        v.push(space(&format!("mid-size: all {} topologically labelled DAGs on {n} nodes (every isomorphism class), <= {dev} deviation(s) from the base schedules", 1u64 << (n * (n - 1) / 2)), topo_dag_specs(n), Some(dev), cfgs));
    }
    v
}

/// Irregular graphs explored with the antichain-targeted base schedules: two-depth fans, combs,
/// trees, fan-in/out mixes and the arithmetic family; `A` = a maximum antichain of the graph.
pub fn irregular_specs(tier: &str) -> Vec<Spec> {
    let mut v = vec![];
    let ks: &[usize] = if tier == "thorough" { &[2, 3, 4, 5, 6, 8, 9, 12, 16, 17, 20] } else { &[2, 3, 4, 5, 8, 9, 17] };
    for &k in ks {
        for f in [Family::FanPair, Family::DeepFanPair, Family::Comb, Family::FanInOut, Family::BinTree] {
            let kk = if f == Family::BinTree { 2 * k + 3 } else { k };
            let s = family_spec(f, kk);
            // same shape with the labels reversed (insertion order opposite to dependency order)
            let n = s.n;
            let mut r = s.clone();
            for e in r.edges.iter_mut() {
                e.0 = n - 1 - e.0;
                e.1 = n - 1 - e.1;
            }
            v.push(s);
            v.push(r);
        }
    }
    let ns: &[usize] = if tier == "thorough" { &[7, 8, 9, 10, 11, 12, 14, 16] } else { &[7, 8, 10, 12] };
    v.extend(crate::props_build::arithmetic_specs(ns, false).into_iter().map(|(_, s)| s));
    v
}

pub struct AntiOpts {
    pub futures: bool,
    pub streams: bool,
    pub limits: Vec<Option<usize>>,
    /// also the limit |A| - 1 (one less than what the graph can keep in flight)
    pub limit_below_width: bool,
    /// try APIs with every member of A failing
    pub fail_antichain: bool,
}

pub fn antichain_spaces(tier: &str, o: AntiOpts) -> Vec<Space> {
    let specs = irregular_specs(tier);
    let count = specs.len();
    let small: Vec<Spec> = specs.iter().filter(|s| s.n <= 9).cloned().collect();
    let cfgs = move |s: &Spec| {
        let a = max_antichain(s.n, &s.user_edges());
        let w = a.iter().filter(|x| **x).count();
        let mut c = vec![];
        if o.futures {
            let mut lims = o.limits.clone();
            if o.limit_below_width && w >= 2 && !lims.contains(&Some(w - 1)) {
                lims.push(Some(w - 1));
            }
            for limit in lims {
                for (api, rev) in [(Api { kind: Kind::ForEach, mutable: false, with: true }, false), (Api { kind: Kind::ForEach, mutable: true, with: true }, true), (Api { kind: Kind::TryForEach, mutable: true, with: false }, false)] {
                    let mut r = RunCfg::plain(api, s.n);
                    r.base = Base::Avoid;
                    r.avoid = a.clone();
                    r.rev = rev;
                    r.limit = limit;
                    r.imm_choice = false;
                    c.push(JobCfg::S(r));
                }
            }
        }
        if o.fail_antichain {
            for api in [Api { kind: Kind::TryForEach, mutable: false, with: true }, Api { kind: Kind::Control, mutable: true, with: false }] {
                for base in [Base::Avoid, Base::Batch] {
                    let mut r = RunCfg::plain(api, s.n);
                    r.base = base;
                    r.avoid = a.clone();
                    r.fail = a.clone();
                    r.imm_choice = false;
                    c.push(JobCfg::S(r));
                }
            }
        }
        if o.streams {
            for base in [CBase::Avoid, CBase::AvoidRev] {
                for rev in [false, true] {
                    let mut cc = CCfg::plain(SApi::StreamWith);
                    cc.base = base;
                    cc.avoid = a.clone();
                    cc.rev = rev;
                    c.push(JobCfg::C(cc));
                }
            }
        }
        c
    };
    let mut v = vec![space(
        &format!("{count} irregular graphs (two-depth fans, combs, trees, fan-in/out mixes, arithmetic DAGs on 7..16 nodes), base schedule that keeps a maximum antichain in flight / held, <= 1 deviation"),
        specs,
        Some(1),
        cfgs.clone(),
    )];
    if tier == "thorough" {
        v.push(space(&format!("the {} of those graphs with at most 9 functions, <= 2 deviations", small.len()), small, Some(2), cfgs));
    }
    v
}

/// Large irregular graphs (arithmetic family on 70 and 100 nodes: many rank-skipping edges, more
/// than 64 descendants) and the declared wide families, under base schedules only.
pub fn large_irregular_spaces(tier: &str, futures: bool, streams: bool, declared: bool) -> Vec<Space> {
    let mut v = vec![];
    let ns: &[usize] = if tier == "thorough" { &[40, 70, 100, 130] } else { &[70, 100] };
    let mut specs: Vec<Spec> = crate::props_build::arithmetic_specs(ns, false).into_iter().map(|(_, s)| s).filter(|s| s.edges.len() <= 2600).collect();
    if declared {
        specs.extend(crate::props_build::sparse_conflict_specs().into_iter().map(|(_, s)| s));
        specs.extend(crate::props_build::many_type_specs().into_iter().map(|(_, s)| s));
        specs.extend(crate::props_build::size_threshold_specs(tier).into_iter().map(|(_, s)| s));
    }
    let count = specs.len();
    v.push(space(
        &format!("{count} large graphs: arithmetic irregular DAGs on {ns:?} nodes{}; 5 base schedules, no deviation", if declared { ", two writers 1..300 unrelated functions apart, 31..130 data types, declared shapes of 256/257/300 functions" } else { "" }),
        specs,
        Some(0),
        move |s: &Spec| {
            let mut c = vec![];
            let a = max_antichain(s.n, &s.user_edges());
            if futures {
                for base in [Base::Eager, Base::EagerHigh, Base::Avoid, Base::Batch] {
                    for rev in [false, true] {
                        let mut r = RunCfg::plain(Api { kind: Kind::ForEach, mutable: false, with: true }, s.n);
                        r.base = base;
                        r.rev = rev;
                        r.imm_choice = false;
                        if base == Base::Avoid {
                            r.avoid = a.clone();
                        }
                        c.push(JobCfg::S(r));
                    }
                }
            }
            if streams {
                for base in [CBase::Eager, CBase::Avoid] {
                    let mut cc = CCfg::plain(SApi::StreamWith);
                    cc.base = base;
                    if base == CBase::Avoid {
                        cc.avoid = a.clone();
                    }
                    c.push(JobCfg::C(cc));
                }
            }
            c
        },
    ));
    v
}

/// Thorough tier only, placed LAST in a check's list of spaces (it is by far the largest):
/// every labelled DAG on 5 nodes under a reduced menu - the 10 `_with` methods x order, no limit
/// (limit 1 and 2 for for_each_concurrent_with only).
pub fn n5_space(tier: &str, extra_limits: &[Option<usize>]) -> Vec<Space> {
    if tier != "thorough" {
        return vec![];
    }
    let extra: Vec<Option<usize>> = extra_limits.to_vec();
    vec![space("plain runs, 10 _with APIs x order (extra limits for for_each_concurrent_with), all 29281 labelled DAGs on 5 nodes", shape_specs(5, false), None, move |s| {
        let mut c = cfgs_plain(s.n, &Api::all_with(), &[None], &REVS);
        if !extra.is_empty() {
            c.extend(cfgs_plain(s.n, &[Api { kind: Kind::ForEach, mutable: false, with: true }], &extra, &FWD));
        }
        c
    })]
}

/// Wide and irregular graphs with the interrupt armed: the single allowed deviation is the
/// moment at which the signal is sent.
pub fn wide_interrupt_spaces(tier: &str, streams: bool) -> Vec<Space> {
    let thorough = tier == "thorough";
    let ks: &[usize] = if thorough { &[5, 9, 16, 17, 32, 33, 40, 65] } else { &[9, 33] };
    let mut specs = vec![];
    for &k in ks {
        let fams: &[Family] = if thorough { &[Family::Antichain, Family::FanOut, Family::FanPair, Family::Comb, Family::BinTree, Family::Chain] } else { &[Family::Antichain, Family::FanPair, Family::Comb, Family::BinTree] };
        for &f in fams {
            let s = family_spec(f, k);
            let n = s.n;
            let mut r = s.clone();
            for e in r.edges.iter_mut() {
                e.0 = n - 1 - e.0;
                e.1 = n - 1 - e.1;
            }
            specs.push(s);
            specs.push(r);
        }
    }
    specs.extend(crate::props_build::arithmetic_specs(if thorough { &[10, 20, 36] } else { &[10, 36] }, false).into_iter().map(|(_, s)| s).step_by(if thorough { 2 } else { 5 }));
    let count = specs.len();
    vec![space(
        &format!("{count} wide / irregular graphs (k in {ks:?}, arithmetic DAGs on 10..36 nodes) with the interrupt armed, 5 base schedules (incl. everything in flight completing between two polls, also inside a tokio task), signal sent at any one point"),
        specs,
        Some(1),
        move |s: &Spec| {
            let mut c = vec![];
            for api in [Api { kind: Kind::ForEach, mutable: false, with: true }, Api { kind: Kind::Fold, mutable: false, with: true }, Api { kind: Kind::TryForEach, mutable: true, with: true }] {
                for (strat, include) in [(Strat::Finish, true), (Strat::NextN(2), false)] {
                    for base in [Base::Eager, Base::Batch, Base::EagerHigh] {
                        if !api.concurrent() && base != Base::Eager {
                            continue;
                        }
                        let mut r = RunCfg::plain(api, s.n);
                        r.base = base;
                        r.strat = strat;
                        r.include = include;
                        r.interrupt = true;
                        r.imm_choice = false;
                        r.limit = if base == Base::Batch { Some(3) } else { None };
                        c.push(JobCfg::S(r.clone()));
                        if base == Base::Batch {
                            // everything in flight completes between two polls, with the signal
                            // sent in the same window; also inside a tokio task
                            r.limit = None;
                            c.push(JobCfg::S(r.clone()));
                            r.task_budget = Some(127);
                            c.push(JobCfg::S(r.clone()));
                            r.task_budget = None;
                            r.base = Base::ReverseBatch;
                            c.push(JobCfg::S(r));
                        }
                    }
                }
            }
            if streams {
                for base in [CBase::Eager, CBase::HoldThenDropAll] {
                    let mut cc = CCfg::plain(SApi::StreamWithInterruptible);
                    cc.base = base;
                    cc.strat = Strat::NextN(2);
                    cc.interrupt = true;
                    c.push(JobCfg::C(cc));
                }
            }
            c
        },
    )]
}

/// Shapes up to `nmax` functions under every non-default provenance (`Spec::prov`).
pub fn provenance_specs(nmax: usize) -> Vec<Spec> {
    let mut v = vec![];
    for s in shapes_upto(0, nmax, false) {
        for p in 1u8..=5 {
            if p >= 4 && s.n != 0 {
                continue;
            }
            let mut t = s.clone();
            t.prov = p;
            v.push(t);
        }
    }
    v
}

/// Shapes up to `nmax` functions with one more node added through DerefMut after build().
pub fn extra_node_specs(nmax: usize) -> Vec<Spec> {
    shapes_upto(0, nmax, false)
        .into_iter()
        .map(|mut s| {
            s.prov = 6;
            s
        })
        .collect()
}

/// Inputs that reach the same graph in an unusual way: every edge given more than once
/// (`Spec::redeclare` 1..4) and graph values of unusual provenance (`Spec::prov` 1..6).
pub fn unusual_input_spaces(apis: Vec<Api>, with_streams: bool, limits: Vec<Option<usize>>) -> Vec<Space> {
    let mut v = vec![];
    let (a1, l1) = (apis.clone(), limits.clone());
    v.push(space(
        "every edge given more than once (again through the batch form with the same / the other kind, twice in a row, again with the other and then the listed kind), shapes 2<=n<=3",
        {
            let mut specs = vec![];
            for s in shapes_upto(2, 3, false).into_iter().filter(|s| !s.edges.is_empty()) {
                for r in 1u8..=4 {
                    let mut t = s.clone();
                    t.redeclare = r;
                    specs.push(t);
                }
            }
            specs
        },
        None,
        move |s| {
            let mut c = cfgs_plain(s.n, &a1, &l1, &REVS);
            if with_streams {
                c.extend(cfgs_stream_plain(&[SApi::Stream, SApi::StreamWith], &REVS, 0, false, false));
            }
            c
        },
    ));
    v.push(space(
        "graph values of unusual provenance (a clone, built on another thread, deref_mut() called, FnGraph::new() / default(), a node added through DerefMut after build()), shapes n<=3",
        provenance_specs(3).into_iter().chain(extra_node_specs(3)).collect(),
        None,
        move |s| {
            let mut c = cfgs_plain(s.n, &apis, &limits, &REVS);
            if with_streams {
                c.extend(cfgs_stream_plain(&SApi::all(), &REVS, 0, false, false));
            }
            c
        },
    ));
    v
}

pub struct TaskOpts {
    pub futures: bool,
    pub streams: bool,
    /// one failing function (first / middle / last of those that have a successor) per job
    pub fail_single: bool,
    pub limits: Vec<Option<usize>>,
}

/// Every poll inside a tokio task: the call's own channel and lock operations share tokio's
/// cooperative budget of 128 units per poll (127..125: the user's futures used some of it), so on
/// graphs where more than ~40 functions complete between two polls the budget runs out in the
/// middle of the scheduler's bookkeeping - any operation may then pend with a lock guard held.
/// Outside a runtime (every other space) the budget is unconstrained.
pub fn tokio_task_spaces(tier: &str, o: TaskOpts) -> Vec<Space> {
    let thorough = tier == "thorough";
    let ks: &[usize] = if thorough { &[20, 42, 43, 44, 45, 46, 64, 65, 66, 100, 129, 130, 257] } else { &[45, 66, 130] };
    let mut specs: Vec<Spec> = vec![];
    for &k in ks {
        specs.push(family_spec(Family::Antichain, k));
        // k isolated functions and one edge f -> d, inserted last / first
        specs.push(Spec::plain(k + 2, &[(k, k + 1)]));
        specs.push(Spec::plain(k + 2, &[(0, 1)]));
        for f in [Family::FanOut, Family::FanIn, Family::FanPair, Family::Comb, Family::Layered(2)] {
            let kk = match f {
                Family::FanPair | Family::Comb | Family::Layered(_) => k / 2,
                _ => k,
            };
            specs.push(family_spec(f, kk));
        }
    }
    let budgets: Vec<u16> = if thorough { vec![128, 127, 126, 125, 124, 100] } else { vec![128, 127, 126, 125] };
    let count = specs.len();
    let (futures, streams, fail_single) = (o.futures, o.streams, o.fail_single);
    let limits = if o.limits.is_empty() { vec![None] } else { o.limits.clone() };
    vec![space(
        &format!("{count} wide graphs (k in {ks:?}: antichain, antichain + one edge, fans, two-depth fans, comb, layered) polled inside a tokio task with {budgets:?} budget units per poll, 3 base schedules, no deviation"),
        specs,
        Some(0),
        move |s: &Spec| {
            let mut c = vec![];
            let ue = s.user_edges();
            let mut with_succ: Vec<usize> = (0..s.n).filter(|&i| ue.iter().any(|&(a, _)| a == i)).collect();
            if with_succ.len() > 3 {
                with_succ = vec![with_succ[0], with_succ[with_succ.len() / 2], with_succ[with_succ.len() - 1]];
            }
            for &b in &budgets {
                if futures {
                    for api in [Api { kind: Kind::ForEach, mutable: false, with: true }, Api { kind: Kind::TryForEach, mutable: true, with: true }, Api { kind: Kind::Fold, mutable: false, with: true }] {
                        for base in [Base::Eager, Base::Batch, Base::ReverseBatch] {
                            if !api.concurrent() && base != Base::Eager {
                                continue;
                            }
                            for rev in [false, true] {
                                for &limit in &limits {
                                    if limit.is_some() && !api.concurrent() {
                                        continue;
                                    }
                                    let mut r = RunCfg::plain(api, s.n);
                                    r.imm_choice = false;
                                    r.base = base;
                                    r.rev = rev;
                                    r.limit = limit;
                                    r.task_budget = Some(b);
                                    c.push(JobCfg::S(r.clone()));
                                    if fail_single && api.is_try() && !rev {
                                        for &f in &with_succ {
                                            let mut rf = r.clone();
                                            rf.fail = (0..s.n).map(|i| i == f).collect();
                                            c.push(JobCfg::S(rf));
                                        }
                                    }
                                }
                            }
                        }
                    }
                }
                if streams {
                    for base in [CBase::Eager, CBase::DropFirst, CBase::HoldThenDropAll] {
                        for rev in [false, true] {
                            let mut cc = CCfg::plain(SApi::StreamWith);
                            cc.base = base;
                            cc.rev = rev;
                            cc.task_budget = Some(b);
                            c.push(JobCfg::C(cc));
                        }
                    }
                }
            }
            c
        },
    )]
}

/// C08 inside a tokio task on graphs wide enough to exhaust the cooperative budget with one
/// operation per function (more than 128 functions completing between two polls): the signal
/// sent at any one point of a batched schedule.
pub fn wide_interrupt_task_spaces(tier: &str) -> Vec<Space> {
    let ks: &[usize] = if tier == "thorough" { &[130, 140, 200, 260] } else { &[140, 210] };
    let mut specs = vec![];
    for &k in ks {
        specs.push(Spec::plain(k + 2, &[(k, k + 1)]));
        specs.push(family_spec(Family::FanOut, k));
        specs.push(family_spec(Family::FanPair, k / 2));
        specs.push(family_spec(Family::Comb, k / 2));
    }
    let count = specs.len();
    vec![space(
        &format!("{count} wide graphs of about {ks:?} functions polled inside a tokio task (budget 128 / 127), everything in flight completing between two polls, signal sent at any one point"),
        specs,
        Some(1),
        |s: &Spec| {
            let mut c = vec![];
            for api in [Api { kind: Kind::ForEach, mutable: false, with: true }, Api { kind: Kind::TryForEach, mutable: true, with: true }] {
                for (strat, include) in [(Strat::Finish, true), (Strat::NextN(2), false)] {
                    for b in [128u16, 127] {
                        let mut r = RunCfg::plain(api, s.n);
                        r.base = Base::Batch;
                        r.strat = strat;
                        r.include = include;
                        r.interrupt = true;
                        r.imm_choice = false;
                        r.task_budget = Some(b);
                        c.push(JobCfg::S(r));
                    }
                }
            }
            c
        },
    )]
}

/// Second run of a two-run history on one graph value: an earlier completed run (default
/// schedule) in the opposite / the same order precedes the explored run.
pub fn cfgs_after_earlier_run(n: usize, apis: &[Api], with_streams: bool) -> Vec<JobCfg> {
    let mut v = vec![];
    for pre_mut in [false, true] {
        for pre_rev in [false, true] {
            let mut pre = RunCfg::plain(Api { kind: Kind::ForEach, mutable: pre_mut, with: true }, n);
            pre.rev = pre_rev;
            pre.imm_choice = false;
            for &api in apis.iter().filter(|a| a.with) {
                for rev in [false, true] {
                    let mut c = RunCfg::plain(api, n);
                    c.rev = rev;
                    c.pre = Some(Box::new(pre.clone()));
                    v.push(JobCfg::S(c));
                }
            }
            if with_streams {
                for rev in [false, true] {
                    let mut c = CCfg::plain(SApi::StreamWith);
                    c.rev = rev;
                    c.pre = Some(Box::new(pre.clone()));
                    v.push(JobCfg::C(c));
                }
            }
        }
    }
    v
}

/// Every one of the 24 streaming methods on every irregular and wide graph, on three base
/// schedules without deviation: a regression confined to one method variant must not be able to
/// hide behind graph size.
pub fn all_methods_spaces(tier: &str, futures: bool, streams: bool) -> Vec<Space> {
    let mut specs = irregular_specs(tier);
    let ks: &[usize] = if tier == "thorough" { &[9, 17, 33, 65, 129] } else { &[9, 33] };
    for &k in ks {
        for f in [Family::Antichain, Family::FanIn, Family::FanOut, Family::Chain, Family::Bipartite] {
            specs.push(family_spec(f, if f == Family::Bipartite { k.min(17) } else { k }));
        }
    }
    let count = specs.len();
    vec![space(
        &format!("all 20 future methods x order x limit{{None,2}} and all 4 stream methods on {count} irregular / wide graphs, base schedules eager, antichain, batch, no deviation"),
        specs,
        Some(0),
        move |s: &Spec| {
            let a = max_antichain(s.n, &s.user_edges());
            let mut c = vec![];
            if futures {
                for api in Api::all() {
                    for base in [Base::Eager, Base::Avoid, Base::Batch] {
                        let revs: &[bool] = if api.with { &REVS } else { &FWD };
                        let lims: &[Option<usize>] = if api.concurrent() { &[None, Some(2)] } else { &LIM_NONE };
                        if !api.concurrent() && base != Base::Eager {
                            continue;
                        }
                        for &rev in revs {
                            for &limit in lims {
                                let mut r = RunCfg::plain(api, s.n);
                                r.base = base;
                                r.rev = rev;
                                r.limit = limit;
                                r.imm_choice = false;
                                if base == Base::Avoid {
                                    r.avoid = a.clone();
                                }
                                c.push(JobCfg::S(r));
                            }
                        }
                    }
                }
            }
            if streams {
                for api in SApi::all() {
                    for base in [CBase::Eager, CBase::Avoid, CBase::HoldThenDropAll] {
                        let revs: &[bool] = if api.takes_opts() { &REVS } else { &FWD };
                        for &rev in revs {
                            let mut cc = CCfg::plain(api);
                            cc.base = base;
                            cc.rev = rev;
                            if base == CBase::Avoid {
                                cc.avoid = a.clone();
                            }
                            c.push(JobCfg::C(cc));
                        }
                    }
                }
            }
            c
        },
    )]
}

pub fn conc_with() -> Vec<Api> {
    Api::all_with().into_iter().filter(|a| a.concurrent()).collect()
}

pub fn try_apis() -> Vec<Api> {
    Api::all().into_iter().filter(|a| a.is_try()).collect()
}

fn space(label: &str, specs: Vec<Spec>, deviations: Option<usize>, cfgs: impl Fn(&Spec) -> Vec<JobCfg> + Sync + Send + 'static) -> Space {
    if crate::ishim::DEFAULT_FEATURES_BUILD {
        // the build without fn_graph's `interruptible` feature: only what that API can express
        let f = move |s: &Spec| cfgs(s).into_iter().filter(crate::ishim::ni_ok_job).collect::<Vec<_>>();
        return Space { specs, cfgs: Box::new(f), deviations, label: label.to_string() };
    }
    Space { specs, cfgs: Box::new(cfgs), deviations, label: label.to_string() }
}

const REVS: [bool; 2] = [false, true];
const FWD: [bool; 1] = [false];

// ---------------------------------------------------------------------------
// the general run space shared by C02, C03, C04, C09 (different foci)

pub struct GenOpts {
    pub n_plain: usize,
    pub n_int: usize,
    pub n_fail: usize,
    pub n_stream: usize,
    pub limits: Vec<Option<usize>>,
    pub strats: Vec<(Strat, bool)>,
    pub include_n0: bool,
}

/// Legal but uncommon behaviour of the caller's own futures *while the call is being polled*
/// (round 15): a user future wakes itself and returns Pending (so it is polled again without
/// having been completed), a completing user future completes a sibling from inside its own poll
/// (several functions end within one poll, in an order decided inside the poll), and a user
/// future sends the interrupt signal itself.
pub fn inside_poll_spaces(specs: Vec<Spec>, what: &str, limits: Vec<Option<usize>>, with_fail: bool, with_int: bool) -> Vec<Space> {
    let mut v = vec![];
    let lim = limits.clone();
    // graphs with declarations (675 of them): the 6 concurrent _with APIs only
    let declared = specs.first().is_some_and(|s| !s.decl.is_empty()) || specs.len() > 100;
    let all_apis: Vec<Api> = if declared { conc_with() } else { Api::all() };
    let apis0 = all_apis.clone();
    v.push(space(&format!("user futures that wake themselves (<=1) / complete a sibling from inside their own poll (<=1), {} future APIs x order x limits {limits:?}, {what}", all_apis.len()), specs.clone(), None, move |s| {
        let mut c = cfgs_plain(s.n, &apis0, &lim, &REVS);
        if with_fail && s.n >= 1 && s.n <= 3 {
            c.extend(cfgs_fail(s.n, &try_apis(), &[None, Some(1)], &FWD));
        }
        for j in c.iter_mut() {
            if let JobCfg::S(r) = j {
                r.gate_tricks = (1, 1);
            }
        }
        c
    }));
    let lim = limits.clone();
    v.push(space(&format!("a user future runs the same graph again from inside its own poll (nested for_each_concurrent / fold_async / stream / for_each_concurrent with functions pending for two polls / try_for_each_concurrent, driven to the end there), {} `&self` future APIs x order x limits {limits:?}, {what}", all_apis.iter().filter(|a| !a.mutable).count()), specs.clone(), None, move |s| {
        let apis: Vec<Api> = all_apis.iter().copied().filter(|a| !a.mutable).collect();
        let mut c = cfgs_plain(s.n, &apis, &lim, &REVS);
        if with_fail && s.n >= 1 && s.n <= 3 {
            c.extend(cfgs_fail(s.n, &apis.iter().copied().filter(|a| a.is_try()).collect::<Vec<_>>(), &[None, Some(1)], &FWD));
        }
        for j in c.iter_mut() {
            if let JobCfg::S(r) = j {
                r.nested = 1;
            }
        }
        c
    }));
    if with_int {
        v.push(space(&format!("signal sent by a user future from inside the poll, 10 _with APIs x order x limit{{None,1}}, 4 strategy/flag combinations, {what}"), specs, None, move |s| {
            let mut c = cfgs_interrupt(s.n, &Api::all_with(), &[None, Some(1)], &REVS, &STRATS_LIGHT);
            for j in c.iter_mut() {
                if let JobCfg::S(r) = j {
                    r.mid_poll_int = true;
                }
            }
            c
        }));
    }
    v
}

/// C15 / C20: runs inside runs. The nested run is a run of its own on a graph another run is in
/// progress on (C20), and the rest of the outer run comes after a completed run on the same graph
/// value (C15).
pub fn nested_run_spaces(prop: u8, tier: &str) -> (Vec<Space>, Focus) {
    let nmax = if tier == "thorough" { 4 } else { 3 };
    let mut v = inside_poll_spaces(shapes_upto(1, nmax, false), &format!("shapes 1<=n<={nmax}"), vec![None, Some(1)], true, true);
    if prop == 15 || tier == "thorough" {
        v.extend(inside_poll_spaces(decl_specs(3, 1), "all DAGs x declarations n=3 T=1", vec![None], false, false).into_iter().skip(1));
    }
    let focus = Focus {
        props: vec![prop],
        nontrivial_s: |_, f| f.nested_runs > 0,
        nontrivial_c: |_, _| false,
        counters_s: |_, f, st| st.count("runs_in_which_a_user_future_drove_a_nested_run_on_the_same_graph", (f.nested_runs > 0) as u64),
        counters_c: no_counters_c,
    };
    (v, focus)
}

pub fn general_spaces(o: &GenOpts) -> Vec<Space> {
    let mut v = vec![];
    let nmin = if o.include_n0 { 0 } else { 1 };
    let lim = o.limits.clone();
    v.push(space(&format!("plain runs, all 20 future APIs, shapes n<={}", o.n_plain), shapes_upto(nmin, o.n_plain, true), None, move |s| {
        cfgs_plain(s.n, &Api::all(), &lim, &REVS)
    }));
    let st = o.strats.clone();
    v.push(space(&format!("interrupt at every point, 10 _with APIs, shapes n<={}", o.n_int), shapes_upto(nmin, o.n_int, false), None, move |s| {
        cfgs_interrupt(s.n, &Api::all_with(), &[None, Some(1)], &REVS, &st)
    }));
    v.push(space(&format!("every failing subset, 12 try APIs, shapes n<={}", o.n_fail), shapes_upto(1, o.n_fail, false), None, move |s| {
        cfgs_fail(s.n, &try_apis(), &[None, Some(1), Some(2)], &REVS)
    }));
    v.push(space(&format!("one failing function + interrupt, shapes n<={}", o.n_fail.min(3)), shapes_upto(1, o.n_fail.min(3), false), None, move |s| {
        cfgs_fail_interrupt(s.n, &Api::all_with(), &[(Strat::Finish, true), (Strat::Finish, false), (Strat::NextN(1), true)])
    }));
    let with_streams = o.n_stream > 0;
    v.push(space("second run on a graph value that an earlier run (either order, & / &mut) was completed on, 10 _with APIs x order, shapes 1<=n<=3", shapes_upto(1, 3, false), None, move |s| {
        cfgs_after_earlier_run(s.n, &Api::all_with(), with_streams)
    }));
    v.push(space("StreamOpts builder methods called in every order (non-default values for all three settings), shapes 1<=n<=3", shapes_upto(1, 3, false), None, move |s| {
        cfgs_opts_orders(s.n, &Api::all_with(), &[None], with_streams)
    }));
    v.extend(inside_poll_spaces(shapes_upto(1, 3, false), "shapes 1<=n<=3", vec![None, Some(1)], true, true));
    v.extend(unusual_input_spaces(Api::all(), with_streams, vec![None]));
    v.push(space("graphs with access declarations (Data edges), all DAGs x declarations n=3 T=1, 10 _with APIs x order, streams", decl_specs(3, 1), None, move |s| {
        let mut c = cfgs_plain(s.n, &Api::all_with(), &[None], &REVS);
        if with_streams {
            c.extend(cfgs_stream_plain(&[SApi::StreamWith], &REVS, 0, false, false));
        }
        c
    }));
    if o.n_stream > 0 {
        let st = o.strats.clone();
        v.push(space(&format!("streams (consumer explorer), shapes n<={}", o.n_stream), shapes_upto(nmin, o.n_stream, true), None, move |_| {
            let mut c = cfgs_stream_plain(&SApi::all(), &REVS, 0, false, false);
            c.extend(cfgs_stream_interrupt(&FWD, &st));
            c
        }));
    }
    v
}

fn no_counters_s(_: &RunCfg, _: &Facts, _: &mut Stats) {}
fn no_counters_c(_: &CCfg, _: &CFacts, _: &mut Stats) {}

// ---------------------------------------------------------------------------
// C01

pub fn c01(tier: &str) -> (Vec<Space>, Focus) {
    let apis = conc_with();
    let mut v = vec![];
    let a1 = apis.clone();
    let main_cfgs = move |s: &Spec| {
        let mut c = cfgs_plain(s.n, &a1, &[None, Some(2)], &REVS);
        c.extend(cfgs_stream_plain(&[SApi::StreamWith, SApi::Stream], &REVS, 0, false, false));
        c
    };
    // the same without limit 2 for five of the six methods (quick tier, n=3 T=2)
    let a1b = apis.clone();
    let main_cfgs_light = move |s: &Spec| {
        let mut c = cfgs_plain(s.n, &a1b, &[None], &REVS);
        c.extend(cfgs_plain(s.n, &a1b[..1], &[Some(2)], &REVS));
        c.extend(cfgs_stream_plain(&[SApi::StreamWith, SApi::Stream], &REVS, 0, false, false));
        c
    };
    let mut specs: Vec<Spec> = (0..=2).flat_map(|n| decl_specs(n, 2)).collect();
    specs.extend(decl_specs(3, 1));
    v.push(space("all DAGs x declarations, n<=2 T=2 and n=3 T=1; 6 concurrent _with APIs x order x limit{None,2}; stream, stream_with", specs, None, main_cfgs.clone()));
    if tier == "thorough" {
        v.push(space("all DAGs x declarations, n=3 T=2; same configurations", decl_specs(3, 2), None, main_cfgs.clone()));
    } else {
        v.push(space("all DAGs x declarations, n=3 T=2; 6 concurrent _with APIs x order (limit 2 for for_each_concurrent_with only); stream, stream_with", decl_specs(3, 2), None, main_cfgs_light));
    }
    // interrupts and failures on graphs with declarations
    let a2 = apis.clone();
    let stress = move |s: &Spec| {
        let mut c = cfgs_interrupt(s.n, &a2, &[None], &REVS, &[(Strat::Finish, true), (Strat::NextN(1), false)]);
        c.extend(cfgs_fail(s.n, &a2, &[None], &REVS));
        c.extend(cfgs_stream_interrupt(&FWD, &[(Strat::Finish, true), (Strat::NextN(1), true)]));
        c
    };
    let specs: Vec<Spec> = (1..=3).flat_map(|n| decl_specs(n, 1)).collect();
    v.push(space("n<=3 T=1 with interrupt at every point / every failing subset", specs, None, stress.clone()));
    v.extend(inside_poll_spaces(decl_specs(3, 1), "all DAGs x declarations n=3 T=1", vec![None], false, false));
    // n=4: reduced configuration menu in the quick tier, the full one in the thorough tier
    v.push(space("all DAGs x declarations, n=4 T=1; for_each_concurrent_with x order", decl_specs(4, 1), None, |s| {
        cfgs_plain(s.n, &[Api { kind: Kind::ForEach, mutable: false, with: true }], &[None], &REVS)
    }));
    if tier == "thorough" {
        v.push(space("all DAGs x declarations, n=4 T=2 (3.56 million built graphs); for_each_concurrent_with x order", decl_specs(4, 2), None, |s| {
            cfgs_plain(s.n, &[Api { kind: Kind::ForEach, mutable: false, with: true }], &[None], &REVS)
        }));
        v.push(space("all DAGs x declarations, n=4 T=1; main configurations", decl_specs(4, 1), None, main_cfgs));
        v.push(space("n=3 T=2 with interrupt at every point / every failing subset", decl_specs(3, 2), None, stress));
    }
    v.extend(large_irregular_spaces(tier, true, true, true));
    v.push(space("StreamOpts builder methods called in every order, declarations n=3 T=1", decl_specs(3, 1), None, |s| {
        cfgs_opts_orders(s.n, &[Api { kind: Kind::ForEach, mutable: false, with: true }, Api { kind: Kind::TryForEach, mutable: true, with: true }], &[None], true)
    }));
    let focus = Focus {
        props: vec![1],
        nontrivial_s: |_, f| f.max_inflight >= 2 && f.conflicting_pair_both_ran,
        nontrivial_c: |_, f| f.max_held >= 2 && f.conflicting_pair_both_yielded,
        counters_s: |_, f, st| {
            st.count("executions_with_2+_in_flight", (f.max_inflight >= 2) as u64);
            st.count("executions_where_a_conflicting_pair_both_ran", f.conflicting_pair_both_ran as u64);
        },
        counters_c: |_, f, st| {
            st.count("consumer_executions_holding_2+_FnRefs", (f.max_held >= 2) as u64);
        },
    };
    (v, focus)
}

// ---------------------------------------------------------------------------
// C02, C03, C04, C09: general space with different foci

fn gen_opts(tier: &str) -> GenOpts {
    if tier == "thorough" {
        GenOpts { n_plain: 4, n_int: 4, n_fail: 4, n_stream: 4, limits: vec![None, Some(1), Some(2)], strats: STRATS_FULL.to_vec(), include_n0: true }
    } else {
        GenOpts { n_plain: 4, n_int: 3, n_fail: 3, n_stream: 4, limits: vec![None, Some(1), Some(2)], strats: STRATS_FULL.to_vec(), include_n0: true }
    }
}

pub fn c02(tier: &str) -> (Vec<Space>, Focus) {
    let mut v = general_spaces(&gen_opts(tier));
    // graphs with declarations: data edges must not disturb the user's order
    v.push(space("n=3 T=1 declarations, 6 concurrent _with APIs", decl_specs(3, 1), None, |s| cfgs_plain(s.n, &conc_with(), &[None], &REVS)));
    v.extend(mid_spaces(tier, true, true, None));
    v.extend(antichain_spaces(tier, AntiOpts { futures: true, streams: true, limits: vec![None, Some(2)], limit_below_width: false, fail_antichain: false }));
    v.extend(tokio_task_spaces(tier, TaskOpts { futures: true, streams: true, fail_single: false, limits: vec![] }));
    v.extend(wide_spaces(tier, true, false));
    v.extend(large_irregular_spaces(tier, true, true, false));
    v.extend(all_methods_spaces(tier, true, true));
    v.extend(n5_space(tier, &[]));
    let focus = Focus {
        props: vec![2],
        nontrivial_s: |_, f| f.starts >= 2,
        nontrivial_c: |_, f| f.yields >= 2,
        counters_s: |_, f, st| st.count("executions_with_batched_completions", f.batched_completions as u64),
        counters_c: |_, f, st| st.count("consumer_executions_with_2+_drops_between_polls", (f.multi_drop_windows > 0) as u64),
    };
    (v, focus)
}

/// Wide families: channel sizing, preload, result channel.
pub fn wide_spaces(tier: &str, with_streams: bool, fail_all: bool) -> Vec<Space> {
    let mut v = vec![];
    let ks_dev1: Vec<usize> = if tier == "thorough" { vec![8, 9, 16, 17, 32, 33, 64, 65] } else { vec![9, 17, 33] };
    let ks_dev0: Vec<usize> = if tier == "thorough" { vec![100, 128, 129, 256, 257, 512, 1025] } else { vec![65, 129, 257] };
    let fams = [Family::Antichain, Family::FanIn, Family::FanOut, Family::StarRev, Family::FanPair, Family::Comb];
    let fams2 = [Family::Bipartite, Family::Chain, Family::BinTree];
    let mk = |ks: &[usize], big: bool| -> Vec<Spec> {
        let mut s = vec![];
        for &k in ks {
            for f in fams {
                s.push(family_spec(f, k));
            }
            if !big || k <= 257 {
                for f in fams2 {
                    let kk = if f == Family::Bipartite { k.min(65) } else { k };
                    s.push(family_spec(f, kk));
                }
            }
        }
        s
    };
    let cfgs = move |s: &Spec| {
        let mut c = vec![];
        let apis = [
            Api { kind: Kind::ForEach, mutable: false, with: true },
            Api { kind: Kind::TryForEach, mutable: true, with: true },
            Api { kind: Kind::Fold, mutable: false, with: true },
        ];
        for api in apis {
            for base in [Base::Eager, Base::AllImmediate, Base::Batch, Base::ReverseBatch] {
                for rev in [false, true] {
                    if !api.concurrent() && (base == Base::Batch || base == Base::ReverseBatch) {
                        continue;
                    }
                    let mut r = RunCfg::plain(api, s.n);
                    r.imm_choice = s.n <= 20;
                    r.base = base;
                    r.rev = rev;
                    c.push(JobCfg::S(r.clone()));
                    if fail_all && api.is_try() && !rev {
                        r.fail = vec![true; s.n];
                        c.push(JobCfg::S(r));
                    }
                }
            }
        }
        if with_streams {
            for base in [CBase::Eager, CBase::DropFirst, CBase::HoldThenDropAll] {
                for rev in [false, true] {
                    let mut cc = CCfg::plain(SApi::StreamWith);
                    cc.base = base;
                    cc.rev = rev;
                    c.push(JobCfg::C(cc));
                }
            }
        }
        c
    };
    v.push(space(&format!("wide families k in {ks_dev1:?}, <=1 deviation from 4 base schedules"), mk(&ks_dev1, false), Some(1), cfgs.clone()));
    v.push(space(&format!("wide families k in {ks_dev0:?}, base schedules only"), mk(&ks_dev0, true), Some(0), cfgs));
    v
}

pub fn c03(tier: &str) -> (Vec<Space>, Focus) {
    let mut v = general_spaces(&gen_opts(tier));
    v.extend(wide_spaces(tier, true, false));
    v.extend(mid_spaces(tier, true, true, None));
    v.extend(antichain_spaces(tier, AntiOpts { futures: true, streams: true, limits: vec![None, Some(1), Some(2)], limit_below_width: false, fail_antichain: false }));
    v.extend(tokio_task_spaces(tier, TaskOpts { futures: true, streams: true, fail_single: false, limits: vec![] }));
    v.extend(large_irregular_spaces(tier, true, true, false));
    v.extend(all_methods_spaces(tier, true, true));
    v.extend(n5_space(tier, &[]));
    let focus = Focus {
        props: vec![3],
        nontrivial_s: |_, f| f.returned && f.starts >= 2,
        nontrivial_c: |_, f| f.yields >= 2,
        counters_s: |_, f, st| st.count("clean_complete_runs", (f.returned && f.all_started) as u64),
        counters_c: |_, f, st| st.count("streams_that_ended_after_all_yielded", (f.ended && f.all_yielded) as u64),
    };
    (v, focus)
}

pub fn c04(tier: &str) -> (Vec<Space>, Focus) {
    let mut o = gen_opts(tier);
    o.n_stream = 0;
    let mut v = general_spaces(&o);
    // spurious polls and fresh wakers
    let nsp = if tier == "thorough" { 4 } else { 3 };
    v.push(space(&format!("<=2 spurious polls, shapes n<={nsp}, 10 _with APIs"), shapes_upto(0, nsp, false), None, |s| {
        let mut c = cfgs_plain(s.n, &Api::all_with(), &[None, Some(1)], &FWD);
        for j in c.iter_mut() {
            if let JobCfg::S(r) = j {
                r.spurious = 2;
            }
        }
        c
    }));
    v.push(space(&format!("fresh waker on every poll, shapes n<={nsp}, interrupts and failures included"), shapes_upto(0, nsp, false), None, |s| {
        let mut c = cfgs_plain(s.n, &Api::all_with(), &[None, Some(1)], &REVS);
        c.extend(cfgs_interrupt(s.n, &Api::all_with(), &[None], &FWD, &STRATS_LIGHT));
        c.extend(cfgs_fail(s.n, &try_apis(), &[None], &FWD));
        for j in c.iter_mut() {
            if let JobCfg::S(r) = j {
                r.fresh_waker = true;
            }
        }
        c
    }));
    // tokio cooperative budget exhausted inside a poll
    let nb = if tier == "thorough" { 3 } else { 2 };
    let (bp, buds): (u8, Vec<u16>) = if tier == "thorough" { (2, vec![0, 1, 2, 3, 5]) } else { (1, vec![0, 1, 2, 3]) };
    v.push(space(&format!("tokio budget {buds:?} left in up to {bp} poll(s), shapes n<={nb}, failures and interrupts included"), shapes_upto(0, nb, false), None, move |s| {
        let mut c = cfgs_plain(s.n, &Api::all_with(), &[None, Some(1)], &FWD);
        c.extend(cfgs_interrupt(s.n, &Api::all_with(), &[None], &FWD, &[(Strat::Finish, true), (Strat::NextN(1), false)]));
        c.extend(cfgs_fail(s.n, &try_apis(), &[None], &FWD));
        for j in c.iter_mut() {
            if let JobCfg::S(r) = j {
                r.budgets = buds.clone();
                r.budget_polls = bp;
            }
        }
        c
    }));
    v.extend(wide_spaces(tier, false, true));
    v.extend(mid_spaces(tier, true, false, None));
    v.extend(antichain_spaces(tier, AntiOpts { futures: true, streams: false, limits: vec![None, Some(1), Some(2)], limit_below_width: true, fail_antichain: true }));
    v.extend(tokio_task_spaces(tier, TaskOpts { futures: true, streams: false, fail_single: true, limits: vec![None, Some(2)] }));
    v.extend(large_irregular_spaces(tier, true, false, false));
    v.extend(all_methods_spaces(tier, true, false));
    v.extend(n5_space(tier, &[Some(1)]));
    let focus = Focus {
        props: vec![4],
        nontrivial_s: |_, f| f.returned && f.idle_points >= 1,
        nontrivial_c: |_, _| false,
        counters_s: |c, f, st| {
            st.count("runs_returned", f.returned as u64);
            st.count("runs_on_empty_graph", (c.fail.is_empty()) as u64);
            st.count("idle_points_checked", f.idle_points as u64);
        },
        counters_c: no_counters_c,
    };
    (v, focus)
}

pub fn c09(tier: &str) -> (Vec<Space>, Focus) {
    let mut o = gen_opts(tier);
    o.n_stream = 0;
    let mut v = general_spaces(&o);
    v.extend(wide_spaces(tier, false, true));
    v.extend(antichain_spaces(tier, AntiOpts { futures: true, streams: false, limits: vec![None, Some(2)], limit_below_width: false, fail_antichain: true }));
    v.extend(tokio_task_spaces(tier, TaskOpts { futures: true, streams: false, fail_single: true, limits: vec![] }));
    v.extend(wide_interrupt_spaces(tier, false));
    v.extend(all_methods_spaces(tier, true, false));
    v.extend(n5_space(tier, &[]));
    let focus = Focus {
        props: vec![9],
        nontrivial_s: |_, f| f.returned && !f.all_started,
        nontrivial_c: |_, _| false,
        counters_s: |_, f, st| {
            st.count("outcomes_finished", (f.returned && f.all_started) as u64);
            st.count("outcomes_partial", (f.returned && !f.all_started) as u64);
        },
        counters_c: no_counters_c,
    };
    (v, focus)
}

// ---------------------------------------------------------------------------
// C05: streams

pub fn c05(tier: &str) -> (Vec<Space>, Focus) {
    let nmax = if tier == "thorough" { 5 } else { 4 };
    let mut v = vec![];
    v.push(space(&format!("4 stream APIs x order, shapes n<={nmax}, every poll/drop interleaving"), shapes_upto(0, nmax, true), None, |_| cfgs_stream_plain(&SApi::all(), &REVS, 0, false, false)));
    v.push(space(&format!("stream dropped at every point, shapes n<={}", nmax - 1), shapes_upto(0, nmax - 1, false), None, |_| cfgs_stream_plain(&[SApi::Stream, SApi::StreamWithInterruptible], &REVS, 0, false, true)));
    v.push(space(&format!("<=1 spurious poll / fresh waker, shapes n<={}", nmax - 1), shapes_upto(0, nmax - 1, false), None, |_| {
        let mut c = cfgs_stream_plain(&[SApi::Stream, SApi::StreamWith], &REVS, 1, false, false);
        c.extend(cfgs_stream_plain(&SApi::all(), &REVS, 0, true, false));
        c
    }));
    v.push(space("graphs with declarations n=3 T=1 (data edges)", decl_specs(3, 1), None, |_| cfgs_stream_plain(&[SApi::Stream, SApi::StreamWith], &REVS, 0, false, false)));
    let nb = if tier == "thorough" { 4 } else { 3 };
    v.push(space(&format!("tokio budget {{0,1,2}} left in one poll, shapes n<={nb}"), shapes_upto(0, nb, false), None, |_| {
        let mut c = cfgs_stream_plain(&[SApi::Stream, SApi::StreamWithInterruptible], &FWD, 0, false, false);
        for j in c.iter_mut() {
            if let JobCfg::C(r) = j {
                r.budgets = vec![0, 1, 2];
                r.budget_polls = 1;
            }
        }
        c
    }));
    // wide: streams only
    let ks1: Vec<usize> = if tier == "thorough" { vec![8, 9, 16, 17, 32, 33, 64, 65] } else { vec![9, 17, 33] };
    let ks0: Vec<usize> = if tier == "thorough" { vec![100, 129, 257, 1025] } else { vec![65, 129, 257] };
    let fams = [Family::Antichain, Family::FanIn, Family::FanOut, Family::StarRev, Family::Chain, Family::BinTree, Family::FanPair, Family::Comb];
    let mk = |ks: &[usize]| -> Vec<Spec> { ks.iter().flat_map(|&k| fams.iter().map(move |&f| family_spec(f, k))).collect() };
    let wc = |_: &Spec| {
        let mut c = vec![];
        for base in [CBase::Eager, CBase::DropFirst, CBase::HoldThenDropAll] {
            for rev in [false, true] {
                let mut cc = CCfg::plain(SApi::StreamWith);
                cc.base = base;
                cc.rev = rev;
                c.push(JobCfg::C(cc));
            }
        }
        c
    };
    v.push(space(&format!("wide families k in {ks1:?}, <=1 deviation from 3 consumer base behaviours"), mk(&ks1), Some(1), wc));
    v.push(space(&format!("wide families k in {ks0:?}, consumer base behaviours only"), mk(&ks0), Some(0), wc));
    v.extend(mid_spaces(tier, false, true, None));
    v.push(space("stream on a graph value that an earlier run was completed on, shapes 1<=n<=3", shapes_upto(1, 3, false), None, |s| cfgs_after_earlier_run(s.n, &[], true)));
    v.extend(antichain_spaces(tier, AntiOpts { futures: false, streams: true, limits: vec![], limit_below_width: false, fail_antichain: false }));
    v.extend(tokio_task_spaces(tier, TaskOpts { futures: false, streams: true, fail_single: false, limits: vec![] }));
    v.extend(unusual_input_spaces(vec![], true, vec![None]));
    v.push(space("StreamOpts builder methods called in every order, shapes 1<=n<=3", shapes_upto(1, 3, false), None, |s| {
        cfgs_opts_orders(s.n, &[], &[None], true)
    }));
    v.extend(all_methods_spaces(tier, false, true));
    let focus = Focus {
        props: vec![5],
        nontrivial_s: |_, _| false,
        nontrivial_c: |_, f| f.multi_drop_windows >= 1 || f.idle_points >= 1,
        counters_s: no_counters_s,
        counters_c: |_, f, st| {
            st.count("consumer_executions_with_2+_drops_between_polls", (f.multi_drop_windows > 0) as u64);
            st.count("idle_points_checked", f.idle_points as u64);
            st.count("streams_ended", f.ended as u64);
            st.count("streams_dropped_early", f.stream_dropped_early as u64);
        },
    };
    (v, focus)
}

// ---------------------------------------------------------------------------
// C06 dynamic half (the static half lives in props_build)

pub fn c06(tier: &str) -> (Vec<Space>, Focus) {
    let mut v = vec![];
    let apis = conc_with();
    let a1 = apis.clone();
    let cfgs = move |s: &Spec| {
        let mut c = cfgs_plain(s.n, &a1, &[None, Some(0)], &REVS);
        c.extend(cfgs_stream_plain(&[SApi::Stream, SApi::StreamWith], &REVS, 0, false, false));
        c
    };
    let mut specs: Vec<Spec> = (0..=2).flat_map(|n| decl_specs(n, 2)).collect();
    specs.extend(decl_specs(3, 1));
    v.push(space("all DAGs x declarations n<=2 T=2, n=3 T=1; 6 concurrent _with APIs x order x limit{None,0}; stream, stream_with", specs, None, cfgs.clone()));
    v.push(space("all DAGs x declarations n=3 T=2", decl_specs(3, 2), None, cfgs.clone()));
    v.extend(inside_poll_spaces(decl_specs(3, 1), "all DAGs x declarations n=3 T=1", vec![None], false, false));
    let nmax = 4;
    let a2 = apis.clone();
    v.push(space(&format!("shapes n<={nmax} without declarations, concurrent APIs (plain and _with)"), shapes_upto(0, nmax, true), None, move |s| {
        let mut all: Vec<Api> = a2.clone();
        all.extend(a2.iter().map(|a| Api { with: false, ..*a }));
        let mut c = cfgs_plain(s.n, &all, &[None], &REVS);
        c.extend(cfgs_stream_plain(&[SApi::Stream], &FWD, 0, false, false));
        c
    }));
    if tier == "thorough" {
        v.push(space("all DAGs x declarations n=4 T=1", decl_specs(4, 1), None, cfgs));
    }
    v.extend(wide_spaces(tier, true, false));
    v.extend(mid_spaces(tier, true, true, None));
    v.push(space("second run on a graph value that an earlier run was completed on, shapes 1<=n<=3", shapes_upto(1, 3, false), None, |s| cfgs_after_earlier_run(s.n, &conc_with(), true)));
    v.extend(antichain_spaces(tier, AntiOpts { futures: true, streams: true, limits: vec![None], limit_below_width: false, fail_antichain: false }));
    v.extend(tokio_task_spaces(tier, TaskOpts { futures: true, streams: true, fail_single: false, limits: vec![] }));
    v.extend(unusual_input_spaces(conc_with(), true, vec![None]));
    v.extend(large_irregular_spaces(tier, true, true, true));
    v.push(space("StreamOpts builder methods called in every order, shapes 1<=n<=3", shapes_upto(1, 3, false), None, |s| {
        cfgs_opts_orders(s.n, &conc_with(), &[None], true)
    }));
    v.extend(all_methods_spaces(tier, true, true));
    v.extend(n5_space(tier, &[]));
    let focus = Focus {
        props: vec![6],
        nontrivial_s: |_, f| f.idle_points >= 1 && f.max_inflight >= 2,
        nontrivial_c: |_, f| f.idle_points >= 1,
        counters_s: |_, f, st| {
            st.count("idle_points_checked", f.idle_points as u64);
            st.count("executions_with_2+_in_flight", (f.max_inflight >= 2) as u64);
        },
        counters_c: |_, f, st| st.count("idle_points_checked", f.idle_points as u64),
    };
    (v, focus)
}

// ---------------------------------------------------------------------------
// C07

pub fn c07(tier: &str) -> (Vec<Space>, Focus) {
    let nmax = if tier == "thorough" { 4 } else { 3 };
    let mut v = vec![];
    v.push(space(&format!("every non-empty failing subset, 12 try APIs x order x limit{{None,1,2}}, shapes n<={nmax}"), shapes_upto(1, nmax, true), None, |s| {
        cfgs_fail(s.n, &try_apis(), &[None, Some(1), Some(2)], &REVS)
    }));
    v.push(space("graphs with declarations n<=3 T=1 (data-conflict edges), every failing subset", (1..=3).flat_map(|n| decl_specs(n, 1)).collect(), None, |s| {
        cfgs_fail(s.n, &try_apis().into_iter().filter(|a| a.with).collect::<Vec<_>>(), &[None, Some(2)], &REVS)
    }));
    v.push(space("failure + interrupt, shapes n<=3", shapes_upto(1, 3, false), None, |s| {
        cfgs_fail_interrupt(s.n, &Api::all_with(), &[(Strat::Finish, true), (Strat::Finish, false), (Strat::NextN(1), true), (Strat::Ignore, true)])
    }));
    v.push(space("user futures that wake themselves (<=1) / complete a sibling from inside their own poll (<=2), every failing subset, 12 try APIs x order x limit{None,1,2}, shapes 1<=n<=3", shapes_upto(1, 3, false), None, |s| {
        let mut c = cfgs_fail(s.n, &try_apis(), &[None, Some(1), Some(2)], &REVS);
        for j in c.iter_mut() {
            if let JobCfg::S(r) = j {
                r.gate_tricks = (1, 2);
            }
        }
        c
    }));
    let nb = if tier == "thorough" { 3 } else { 2 };
    v.push(space(&format!("tokio budget {{0,1,2,3}} left in up to 2 polls on the failure path, shapes n<={nb}"), shapes_upto(1, nb, false), None, |s| {
        let mut c = cfgs_fail(s.n, &try_apis().into_iter().filter(|a| a.with).collect::<Vec<_>>(), &[None], &FWD);
        for j in c.iter_mut() {
            if let JobCfg::S(r) = j {
                r.budgets = vec![0, 1, 2, 3];
                r.budget_polls = 2;
            }
        }
        c
    }));
    // wide: everything fails (result channel sizing)
    let ks: Vec<usize> = if tier == "thorough" { vec![9, 17, 33, 65, 129, 257, 1025] } else { vec![9, 17, 33, 65, 129] };
    let specs: Vec<Spec> = ks.iter().flat_map(|&k| [family_spec(Family::Antichain, k), family_spec(Family::FanOut, k)]).collect();
    v.push(space(&format!("wide antichain / fan-out k in {ks:?}: every function fails, 4 base schedules"), specs, Some(0), |s| {
        let mut c = vec![];
        for api in try_apis().into_iter().filter(|a| a.with && a.concurrent()) {
            for base in [Base::Eager, Base::AllImmediate, Base::Batch, Base::ReverseBatch] {
                let mut r = RunCfg::plain(api, s.n);
                r.imm_choice = false;
                r.base = base;
                r.fail = vec![true; s.n];
                if s.edges.is_empty() {
                    c.push(JobCfg::S(r));
                } else {
                    // fan-out: the root succeeds, every leaf fails
                    r.fail[0] = false;
                    c.push(JobCfg::S(r));
                }
            }
        }
        c
    }));
    v.extend(antichain_spaces(tier, AntiOpts { futures: false, streams: false, limits: vec![], limit_below_width: false, fail_antichain: true }));
    v.extend(tokio_task_spaces(tier, TaskOpts { futures: true, streams: false, fail_single: true, limits: vec![] }));
    v.push(space("StreamOpts builder methods called in every order with one failing function, shapes 1<=n<=3", shapes_upto(1, 3, false), None, |s| {
        let mut out = vec![];
        for fi in 0..s.n {
            for mut j in cfgs_opts_orders(s.n, &try_apis(), &[None], false) {
                if let JobCfg::S(r) = &mut j {
                    r.fail = (0..s.n).map(|i| i == fi).collect();
                }
                out.push(j);
            }
        }
        out
    }));
    let focus = Focus {
        props: vec![7],
        nontrivial_s: |_, f| f.returned && f.failed_started >= 1,
        nontrivial_c: |_, _| false,
        counters_s: |_, f, st| {
            st.count("runs_with_2+_failures_reported", (f.returned && f.failed_started >= 2) as u64);
            st.count("runs_where_failure_left_functions_unstarted", (f.returned && f.failed_started >= 1 && !f.all_started) as u64);
        },
        counters_c: no_counters_c,
    };
    (v, focus)
}

// ---------------------------------------------------------------------------
// C08

pub fn c08(tier: &str) -> (Vec<Space>, Focus) {
    let nmax = if tier == "thorough" { 4 } else { 3 };
    let mut v = vec![];
    v.push(space(&format!("interrupt at every point, 10 _with APIs x order x limit{{None,1,2}} x 9 strategy/flag combinations, shapes n<={nmax}"), shapes_upto(0, nmax, true), None, |s| {
        cfgs_interrupt(s.n, &Api::all_with(), &[None, Some(1), Some(2)], &REVS, &STRATS_FULL)
    }));
    v.push(space(&format!("interruptible streams, interrupt at every point, shapes n<={nmax}"), shapes_upto(0, nmax, true), None, |_| cfgs_stream_interrupt(&REVS, &STRATS_FULL)));
    v.push(space("failure + interrupt, shapes n<=3", shapes_upto(1, 3, false), None, |s| cfgs_fail_interrupt(s.n, &Api::all_with(), &STRATS_FULL)));
    v.push(space("graphs with declarations n=3 T=1, interrupt at every point", decl_specs(3, 1), None, |s| {
        cfgs_interrupt(s.n, &conc_with(), &[None], &FWD, &STRATS_LIGHT)
    }));
    v.extend(wide_interrupt_spaces(tier, true));
    v.extend(wide_interrupt_task_spaces(tier));
    v.push(space(&format!("signal sent by a user future from inside the poll (when it first runs or just before it returns), 10 _with APIs x order x limit{{None,1,2}} x 9 strategy/flag combinations, shapes n<={nmax}"), shapes_upto(1, nmax, true), None, |s| {
        let mut c = cfgs_interrupt(s.n, &Api::all_with(), &[None, Some(1), Some(2)], &REVS, &STRATS_FULL);
        for j in c.iter_mut() {
            if let JobCfg::S(r) = j {
                r.mid_poll_int = true;
            }
        }
        c
    }));
    v.push(space("StreamOpts builder methods called in every order (interrupt armed), shapes 1<=n<=3", shapes_upto(1, 3, false), None, |s| {
        cfgs_opts_orders(s.n, &Api::all_with(), &[None, Some(1)], true)
    }));
    let focus = Focus {
        props: vec![8],
        nontrivial_s: |c, f| match (f.starts_after_interrupt, c.strat) {
            (Some(a), Strat::Finish) | (Some(a), Strat::NextN(0)) => a == 1 || !f.all_started,
            (Some(a), Strat::NextN(m)) => a == m as usize || !f.all_started,
            (Some(_), _) => true,
            _ => false,
        },
        nontrivial_c: |_, f| f.yields_after_interrupt.is_some(),
        counters_s: |c, f, st| {
            if let Some(a) = f.starts_after_interrupt {
                st.count("runs_with_interrupt_sent", 1);
                st.count("runs_where_interrupt_preceded_first_poll", f.interrupt_before_first_poll as u64);
                st.count("runs_where_a_user_future_sent_the_signal_inside_a_poll", f.mid_poll_signal as u64);
                st.count("runs_where_functions_ready_at_a_mid_poll_signal_started_after_it", (f.excused_after_mid_signal > 0) as u64);
                let tight = match c.strat {
                    Strat::Finish | Strat::NextN(0) => a == 1,
                    Strat::NextN(m) => a == m as usize && m > 0,
                    _ => false,
                };
                st.count("runs_where_the_bound_was_reached_exactly", tight as u64);
                st.count("runs_cut_short_by_the_interrupt", (f.returned && !f.all_started) as u64);
            }
        },
        counters_c: |_, f, st| {
            st.count("streams_with_interrupt_sent", f.yields_after_interrupt.is_some() as u64);
            st.count("streams_that_yielded_an_Interrupted_item", f.saw_interrupted_item as u64);
        },
    };
    (v, focus)
}

// ---------------------------------------------------------------------------
// C10

pub fn c10(tier: &str) -> (Vec<Space>, Focus) {
    let nmax = 4;
    let mut v = vec![];
    let lims = vec![None, Some(0), Some(1), Some(2), Some(3)];
    let l1 = lims.clone();
    v.push(space(&format!("limit in {{None,0,1,2,3}} x 12 concurrent APIs + 8 fold APIs x order, shapes n<={nmax}"), shapes_upto(0, nmax, true), None, move |s| {
        cfgs_plain(s.n, &Api::all(), &l1, &REVS)
    }));
    v.push(space("limits with failing subsets and interrupts, shapes n<=3", shapes_upto(1, 3, false), None, |s| {
        let mut c = cfgs_fail(s.n, &try_apis(), &[Some(1), Some(2)], &FWD);
        c.extend(cfgs_interrupt(s.n, &Api::all_with(), &[Some(1), Some(2)], &FWD, &STRATS_LIGHT));
        c
    }));
    let ks: Vec<usize> = if tier == "thorough" { vec![5, 9, 17, 33, 65] } else { vec![5, 9, 17] };
    let specs: Vec<Spec> = ks.iter().flat_map(|&k| [family_spec(Family::Antichain, k), family_spec(Family::FanOut, k), family_spec(Family::Bipartite, k.min(17))]).collect();
    v.push(space(&format!("wide families k in {ks:?}, limits {{None,1,2,3,8}}, <=1 deviation"), specs, Some(1), |s| {
        let mut c = vec![];
        for api in [Api { kind: Kind::ForEach, mutable: false, with: true }, Api { kind: Kind::TryForEach, mutable: true, with: false }] {
            for limit in [None, Some(1), Some(2), Some(3), Some(8)] {
                for base in [Base::Eager, Base::Batch] {
                    let mut r = RunCfg::plain(api, s.n);
                    r.limit = limit;
                    r.base = base;
                    r.imm_choice = s.n <= 10;
                    c.push(JobCfg::S(r));
                }
            }
        }
        c
    }));
    v.push(space("StreamOpts builder methods called in every order, limits {1,2}, shapes 1<=n<=3", shapes_upto(1, 3, false), None, |s| {
        cfgs_opts_orders(s.n, &Api::all_with(), &[Some(1), Some(2)], false)
    }));
    v.extend(inside_poll_spaces(shapes_upto(1, 3, false), "shapes 1<=n<=3", vec![Some(1), Some(2)], false, false));
    v.extend(mid_spaces(tier, true, false, Some(2)));
    v.extend(antichain_spaces(tier, AntiOpts { futures: true, streams: false, limits: vec![Some(1), Some(2), Some(3), Some(5)], limit_below_width: true, fail_antichain: false }));
    v.extend(tokio_task_spaces(tier, TaskOpts { futures: true, streams: false, fail_single: false, limits: vec![Some(1), Some(2), Some(50)] }));
    v.extend(unusual_input_spaces(Api::all().into_iter().filter(|a| a.concurrent()).collect(), false, vec![Some(1), Some(2)]));
    v.push(space("graphs with access declarations (Data edges), all DAGs x declarations n=3 T=1, 6 concurrent _with APIs x order x limit{1,2}", decl_specs(3, 1), None, |s| cfgs_plain(s.n, &conc_with(), &[Some(1), Some(2)], &REVS)));
    v.extend(all_methods_spaces(tier, true, false));
    v.extend(n5_space(tier, &[Some(1), Some(2), Some(3)]));
    let focus = Focus {
        props: vec![10],
        nontrivial_s: |c, f| match c.limit {
            Some(l) if l >= 1 && c.api.concurrent() => f.max_inflight == l,
            _ => f.max_inflight >= 2,
        },
        nontrivial_c: |_, _| false,
        counters_s: |c, f, st| {
            if c.api.concurrent() {
                match c.limit {
                    Some(l) if l >= 1 => {
                        st.count("limited_runs", 1);
                        st.count("limited_runs_that_reached_the_limit", (f.max_inflight == l) as u64);
                    }
                    _ => {
                        st.count("unlimited_runs", 1);
                        st.count("unlimited_runs_with_every_function_in_flight_at_once", (f.max_inflight == c.fail.len() && c.fail.len() >= 2) as u64);
                    }
                }
            } else {
                st.count("fold_runs", 1);
            }
        },
        counters_c: no_counters_c,
    };
    (v, focus)
}

// ---------------------------------------------------------------------------
// C08, last clause: with IgnoreInterruptions (or an API that ignores the
// interruptibility fields) a signal never changes anything. Differential: the set
// of traces with the Interrupt event removed equals the set of traces of the same
// configuration in which no signal is ever sent.

fn trace_set(spec: &Spec, cfg: &JobCfg, keep_interrupt: bool, deadline: std::time::Instant, execs: &mut u64) -> std::collections::BTreeMap<u64, Vec<u16>> {
    use crate::exec::Ev;
    let mut set = std::collections::BTreeMap::new();
    let mut stack: Vec<Vec<u16>> = vec![vec![]];
    while let Some(p) = stack.pop() {
        if *execs % 1024 == 0 && std::time::Instant::now() > deadline {
            break;
        }
        let pl = p.len();
        *execs += 1;
        let (taken, ev, result) = match cfg {
            JobCfg::S(c) => {
                let mut g = crate::graphs::build(spec);
                let r = crate::engine_s::run_on(&mut g, c, p);
                (r.taken, r.ev, format!("{:?}{:?}", r.status, r.out))
            }
            JobCfg::C(c) => {
                let g = crate::graphs::build(spec);
                let r = crate::engine_c::run_c(&g, c, p);
                (r.taken, r.ev, format!("{:?}{:?}", r.status, r.end))
            }
            _ => unreachable!(),
        };
        let key: Vec<u16> = taken.iter().map(|t| t.c).collect();
        for i in pl..taken.len() {
            for a in 0..taken[i].k {
                if a != taken[i].c {
                    let mut q = key[..i].to_vec();
                    q.push(a);
                    stack.push(q);
                }
            }
        }
        let filtered: Vec<Ev> = ev.into_iter().filter(|e| keep_interrupt || *e != Ev::Interrupt).collect();
        set.entry(crate::explore::hash64(&(filtered, result))).or_insert(key);
    }
    set
}

pub fn c08_ignore_differential(tier: &str, deadline: std::time::Instant, total: &mut Stats, log: &mut Vec<serde_json::Value>) {
    use crate::explore::{par_for, ViolRec};
    let nmax = if tier == "thorough" { 4 } else { 3 };
    let specs = shapes_upto(0, nmax, false);
    let t0 = std::time::Instant::now();
    let mut st = Stats::default();
    let specs_ref = &specs;
    let capped = par_for(
        specs.len(),
        deadline,
        Stats::default,
        |i, local: &mut Stats| {
            let spec = &specs_ref[i];
            // (configuration A, configuration B, what must not differ)
            let mut pairs: Vec<(JobCfg, JobCfg, &'static str)> = vec![];
            for api in Api::all_with() {
                for rev in [false, true] {
                    for limit in [None, Some(1)] {
                        if !api.concurrent() && limit.is_some() {
                            continue;
                        }
                        let mut a = RunCfg::plain(api, spec.n);
                        a.rev = rev;
                        a.limit = limit;
                        a.strat = Strat::Ignore;
                        let mut b = a.clone();
                        a.interrupt = true;
                        b.interrupt = false;
                        pairs.push((JobCfg::S(a), JobCfg::S(b), "a run that must ignore interruptions, with and without a signal"));
                    }
                }
            }
            for (api, strat) in [(SApi::StreamWithInterruptible, Strat::Ignore), (SApi::StreamWith, Strat::Finish), (SApi::StreamWith, Strat::NextN(1))] {
                for rev in [false, true] {
                    let mut a = CCfg::plain(api);
                    a.rev = rev;
                    a.strat = strat;
                    let mut b = a.clone();
                    a.interrupt = true;
                    b.interrupt = false;
                    pairs.push((JobCfg::C(a), JobCfg::C(b), "a stream that must ignore interruptions, with and without a signal"));
                }
            }
            // the interruptible streams ignore `interrupted_next_item_include`
            if !crate::ishim::DEFAULT_FEATURES_BUILD {
                for strat in [Strat::Finish, Strat::NextN(0), Strat::NextN(1), Strat::NextN(2)] {
                    for rev in [false, true] {
                        let mut a = CCfg::plain(SApi::StreamWithInterruptible);
                        a.rev = rev;
                        a.strat = strat;
                        a.interrupt = true;
                        let mut b = a.clone();
                        a.include = false;
                        b.include = true;
                        pairs.push((JobCfg::C(a), JobCfg::C(b), "stream_with_interruptible with interrupted_next_item_include false and true (the streams ignore that flag)"));
                    }
                }
            }
            for (a, b, what) in pairs {
                local.jobs += 1;
                let mut execs = 0u64;
                // when both sides send the signal its position is part of the behaviour compared
                let keep = what.starts_with("stream_with_interruptible with");
                let sa = trace_set(spec, &a, keep, deadline, &mut execs);
                let sb = trace_set(spec, &b, keep, deadline, &mut execs);
                local.execs += execs;
                local.transitions += execs;
                local.states += sb.len() as u64;
                local.distinct_traces += sa.len() as u64;
                local.nontrivial += sa.len() as u64;
                local.count("ignore_differential_trace_sets_compared", 1);
                if std::time::Instant::now() > deadline {
                    local.capped = true;
                    return;
                }
                let only_a: Vec<&Vec<u16>> = sa.iter().filter(|(h, _)| !sb.contains_key(h)).map(|(_, k)| k).collect();
                let only_b: Vec<&Vec<u16>> = sb.iter().filter(|(h, _)| !sa.contains_key(h)).map(|(_, k)| k).collect();
                if let Some(k) = only_a.first() {
                    local.add_viol(ViolRec {
                        prop: 8,
                        msg: format!("{what}: the first configuration has a behaviour the second cannot produce"),
                        spec: spec.clone(),
                        cfg: a.clone(),
                        choices: (*k).clone(),
                        trace: vec![],
                        result: String::new(),
                    });
                } else if let Some(k) = only_b.first() {
                    local.add_viol(ViolRec {
                        prop: 8,
                        msg: format!("{what}: the second configuration has a behaviour the first cannot produce"),
                        spec: spec.clone(),
                        cfg: b.clone(),
                        choices: (*k).clone(),
                        trace: vec![],
                        result: String::new(),
                    });
                }
            }
        },
        |l| st.merge(l),
    );
    st.capped |= capped;
    let label = format!("IgnoreInterruptions / stream_with differential: trace sets with and without a signal, shapes n<={nmax}");
    log.push(serde_json::json!({"space": label, "executions": st.execs, "completed": !st.capped, "wall_s": t0.elapsed().as_secs_f64()}));
    eprintln!("  [{label}] execs={} viol={} {}{:.1}s", st.execs, st.viol_total, if st.capped { "CAPPED " } else { "" }, t0.elapsed().as_secs_f64());
    total.merge(st);
}
