//! Engine B: exhaustive enumeration of builder inputs / call sequences against
//! boring reference models (C11 - C14, C16 - C18 and the static half of C06).
use std::{
    collections::{BTreeMap, BTreeSet, HashSet},
    time::Instant,
};

use fn_graph::{Edge, FnGraph, FnGraphBuilder, FnId, GraphInfo};
use serde_json::{json, Value};

use crate::{
    exec::catch_quiet,
    explore::{hash64, par_for, JobCfg, Stats, ViolRec},
    graphs::{dags, decl_count, decl_decode, edge_orders, family, longest_rank, raw_edges, Family, Spec},
    node::{conflict, Node},
};

fn bviol(st: &mut Stats, prop: u8, spec: &Spec, what: &str, msg: String) {
    st.add_viol(ViolRec {
        prop,
        msg,
        spec: spec.clone(),
        cfg: JobCfg::B(what.to_string()),
        choices: vec![],
        trace: vec![],
        result: String::new(),
    });
}

/// `graphs::build` registered with the "does build() return" watchdog.
fn timed_build(spec: &Spec) -> FnGraph<Node> {
    watch_begin(spec);
    let g = crate::graphs::build(spec);
    watch_end();
    g
}

/// Build through the public API, recording what `add_fn` returned.
fn build_recording(spec: &Spec) -> (FnGraph<Node>, Vec<usize>) {
    struct Guard;
    impl Drop for Guard {
        fn drop(&mut self) {
            watch_end();
        }
    }
    watch_begin(spec);
    let _guard = Guard;
    // (provenance variants of Spec::prov are applied by graphs::build; the recording build is used
    // by the checks that look at the builder's results, where only `redeclare` matters)
    let (g, ids) = crate::graphs::build_plain_ids(spec);
    let g = match spec.prov {
        1 => g.clone(),
        3 => {
            let mut g = g;
            let _ = std::ops::DerefMut::deref_mut(&mut g);
            g
        }
        _ => g,
    };
    (g, ids)
}

fn ek(e: Edge) -> u8 {
    match e {
        Edge::Logic => 0,
        Edge::Contains => 1,
        Edge::Data => 2,
    }
}

fn eh(v: &[(usize, usize, Edge)]) -> Vec<(usize, usize, u8)> {
    v.iter().map(|e| (e.0, e.1, ek(e.2))).collect()
}

fn kind_of(contains: bool) -> Edge {
    if contains {
        Edge::Contains
    } else {
        Edge::Logic
    }
}

fn acyclic(n: usize, edges: &[(usize, usize)]) -> bool {
    let mut indeg = vec![0usize; n];
    for &(_, b) in edges {
        indeg[b] += 1;
    }
    let mut q: Vec<usize> = (0..n).filter(|&i| indeg[i] == 0).collect();
    let mut seen = 0;
    while let Some(x) = q.pop() {
        seen += 1;
        for &(a, b) in edges {
            if a == x {
                indeg[b] -= 1;
                if indeg[b] == 0 {
                    q.push(b);
                }
            }
        }
    }
    seen == n
}

/// The reference set of data edges: TR(U + R) \\ U, where R orders every
/// conflicting pair the user left unordered by (logic rank, insertion index).
fn reference_data_edges(spec: &Spec) -> (Vec<(usize, usize)>, Vec<usize>) {
    if spec.n <= 64 {
        reference_data_edges_m::<u64>(spec)
    } else {
        reference_data_edges_m::<crate::mask::BigMask>(spec)
    }
}

fn reference_data_edges_m<M: crate::mask::Mask>(spec: &Spec) -> (Vec<(usize, usize)>, Vec<usize>) {
    use crate::mask::{closure_m, transpose_m};
    let n = spec.n;
    let ue = spec.user_edges();
    let rank = longest_rank(n, &ue);
    let reach_u: Vec<M> = closure_m(n, &ue);
    let key = |i: usize| (rank[i], i);
    let mut h = ue.clone();
    if spec.has_decl() {
        for a in 0..n {
            if spec.acc(a).iter().all(|x| *x == 0) {
                continue;
            }
            for c in 0..n {
                if a != c && key(a) < key(c) && conflict(spec.acc(a), spec.acc(c)) && !reach_u[a].get(c) && !reach_u[c].get(a) {
                    h.push((a, c));
                }
            }
        }
    }
    let reach_h: Vec<M> = closure_m(n, &h);
    let anc_h: Vec<M> = transpose_m(n, &reach_h);
    let mut d = vec![];
    for &(a, c) in &h[ue.len()..] {
        // implied iff some k lies strictly between a and c
        if !reach_h[a].intersects(&anc_h[c]) {
            d.push((a, c));
        }
    }
    d.sort_unstable();
    (d, rank)
}

/// Pairs (a, b), a < b, with conflicting declarations that are NOT joined by a directed path
/// over `edges`.
fn unjoined_conflicts<M: crate::mask::Mask>(spec: &Spec, edges: &[(usize, usize)]) -> Vec<(usize, usize)> {
    let n = spec.n;
    let reach: Vec<M> = crate::mask::closure_m(n, edges);
    let mut out = vec![];
    for a in 0..n {
        if spec.acc(a).iter().all(|x| *x == 0) {
            continue;
        }
        for b in a + 1..n {
            if conflict(spec.acc(a), spec.acc(b)) && !reach[a].get(b) && !reach[b].get(a) {
                out.push((a, b));
            }
        }
    }
    out
}

/// C11 + C12 (structure part) + C06 (static part) + C13 on one input.
pub fn check_built(spec: &Spec, props: &[u8], st: &mut Stats) {
    let n = spec.n;
    let what = "build";
    let r = catch_quiet(|| build_recording(spec));
    let (g, ids) = match r {
        Ok(x) => x,
        Err(m) => {
            if props.contains(&11) {
                bviol(st, 11, spec, what, format!("build() panicked: {m}"));
            }
            return;
        }
    };
    st.execs += 1;
    let raw = raw_edges(&g);
    let ue = spec.user_edges();
    let h = hash64(&(eh(&raw), g.ranks().iter().map(|r| r.0).collect::<Vec<_>>()));
    st.count("built_graphs", 1);
    let data: Vec<(usize, usize)> = raw.iter().filter(|e| e.2 == Edge::Data).map(|e| (e.0, e.1)).collect();
    if !data.is_empty() {
        st.count("built_graphs_with_data_edges", 1);
        st.nontrivial_hashes.insert(h);
    }
    st.state_hashes.insert(h);
    st.transitions += (n + spec.edges.len() + 1) as u64;
    if props.contains(&11) {
        if ids != (0..n).collect::<Vec<_>>() {
            bviol(st, 11, spec, what, format!("add_fn returned ids {ids:?}"));
        }
        if g.graph.node_count() != n {
            bviol(st, 11, spec, what, format!("built graph has {} nodes, {} functions were added", g.graph.node_count(), n));
        } else {
            for i in 0..n {
                let nd = &g.graph[FnId::new(i)];
                if nd.id != i || nd.acc != spec.acc(i) {
                    bviol(st, 11, spec, what, format!("function under FnId {i} is {nd:?}"));
                }
            }
        }
        // the batch form add_fns must hand out the same ids and give the same graph
        if (1..=4).contains(&n) && spec.redeclare == 0 {
            let r = catch_quiet(|| {
                let mut b = FnGraphBuilder::new();
                let mk = |i: usize| Node::new(i, spec.acc(i).to_vec());
                let ids: Vec<usize> = match n {
                    1 => b.add_fns([mk(0)]).iter().map(|i| i.index()).collect(),
                    2 => b.add_fns([mk(0), mk(1)]).iter().map(|i| i.index()).collect(),
                    3 => b.add_fns([mk(0), mk(1), mk(2)]).iter().map(|i| i.index()).collect(),
                    _ => {
                        // two calls: 1 + 3
                        let mut v: Vec<usize> = b.add_fns([mk(0)]).iter().map(|i| i.index()).collect();
                        v.extend(b.add_fns([mk(1), mk(2), mk(3)]).iter().map(|i| i.index()));
                        v
                    }
                };
                for &(x, y, contains) in &spec.edges {
                    let r = if contains { b.add_contains_edge(FnId::new(x), FnId::new(y)) } else { b.add_logic_edge(FnId::new(x), FnId::new(y)) };
                    r.expect("spec edges are acyclic");
                }
                (ids, b.build())
            });
            match r {
                Ok((ids2, g2)) => {
                    if ids2 != (0..n).collect::<Vec<_>>() {
                        bviol(st, 11, spec, what, format!("add_fns returned ids {ids2:?}"));
                    }
                    if !(g2 == g) {
                        bviol(st, 11, spec, what, "the graph built with add_fns differs from the graph built with add_fn".into());
                    }
                }
                Err(m) => bviol(st, 11, spec, what, format!("build via add_fns panicked: {m}")),
            }
        }
        // every accepted user edge exactly once with its kind; everything else Data
        let mut rest: Vec<(usize, usize, Edge)> = raw.clone();
        for &(a, b, c) in &spec.edges {
            let want = kind_of(spec.final_contains(c));
            if let Some(p) = rest.iter().position(|e| *e == (a, b, want)) {
                rest.remove(p);
            } else {
                bviol(st, 11, spec, what, format!("user edge {a}->{b} ({want:?}, the kind it was last given with) missing or kind changed; built edges {raw:?}"));
            }
        }
        for e in &rest {
            if e.2 != Edge::Data {
                bviol(st, 11, spec, what, format!("additional edge {e:?} is not of kind Data"));
            } else if !conflict(spec.acc(e.0), spec.acc(e.1)) {
                bviol(st, 11, spec, what, format!("Data edge {}->{} joins functions without conflicting access", e.0, e.1));
            }
        }
        let all: Vec<(usize, usize)> = raw.iter().map(|e| (e.0, e.1)).collect();
        if !acyclic(n, &all) {
            bviol(st, 11, spec, what, format!("built graph has a cycle: {raw:?}"));
        } else {
            let unjoined = if n <= 64 { unjoined_conflicts::<u64>(spec, &all) } else { unjoined_conflicts::<crate::mask::BigMask>(spec, &all) };
            for (a, b) in unjoined.into_iter().take(3) {
                let shown: Vec<_> = raw.iter().take(40).collect();
                bviol(st, 11, spec, what, format!("conflicting functions {a} and {b} are not joined by a directed path; built edges {shown:?}{}", if raw.len() > 40 { " ..." } else { "" }));
            }
        }
    }
    if props.contains(&6) {
        let mut rest: Vec<(usize, usize, Edge)> = raw.clone();
        for &(a, b, _) in &spec.edges {
            if let Some(p) = rest.iter().position(|e| (e.0, e.1) == (a, b)) {
                rest.remove(p);
            }
        }
        for e in &rest {
            if e.2 != Edge::Data || !conflict(spec.acc(e.0), spec.acc(e.1)) {
                bviol(st, 6, spec, what, format!("edge {e:?} was not added by the user and does not join functions with conflicting access"));
            }
        }
    }
    if props.contains(&12) || props.contains(&13) {
        let (dref, rank) = reference_data_edges(spec);
        if props.contains(&13) {
            let got: Vec<usize> = g.ranks().iter().map(|r| r.0).collect();
            if got != rank {
                bviol(st, 13, spec, what, format!("ranks() = {got:?}, longest chains = {rank:?}"));
            }
        }
        if props.contains(&12) {
            let mut dgot = data.clone();
            dgot.sort_unstable();
            if dgot != dref {
                bviol(st, 12, spec, what, format!("Data edges {dgot:?}, expected {dref:?} (lower logic rank first, then insertion order, no implied edge); ranks {rank:?}"));
            }
            // determinism
            match catch_quiet(|| build_recording(spec)) {
                Ok((g2, _)) => {
                    if !(g == g2) || g.ranks() != g2.ranks() {
                        bviol(st, 12, spec, what, "building the same call sequence twice gives graphs that are not == (or ranks differ)".into());
                    }
                }
                Err(m) => bviol(st, 12, spec, what, format!("second build panicked: {m}")),
            }
        }
    }
}

/// C12 sensitivity: one changed function / endpoint / kind gives a graph that is `!=`.
pub fn check_sensitivity(spec: &Spec, st: &mut Stats) {
    if spec.redeclare != 0 {
        // the comparison graphs are built from single calls, one per listed edge; the base spec
        // (every edge given once) is part of the same space
        return;
    }
    let n = spec.n;
    let Ok((g, _)) = catch_quiet(|| build_recording(spec)) else { return };
    let what = "sensitivity";
    let mut tried = 0u64;
    let mut cmp = |m: &Spec, desc: String, st: &mut Stats, tag: Option<(usize, u8)>| {
        let r = catch_quiet(|| {
            let mut b = FnGraphBuilder::new();
            let ids: Vec<FnId> = (0..m.n)
                .map(|i| {
                    let mut nd = Node::new(i, m.acc(i).to_vec());
                    if let Some((ti, t)) = tag {
                        if ti == i {
                            nd.tag = t;
                        }
                    }
                    b.add_fn(nd)
                })
                .collect();
            for &(x, y, c) in &m.edges {
                let r = if c { b.add_contains_edge(ids[x], ids[y]) } else { b.add_logic_edge(ids[x], ids[y]) };
                r.expect("acyclic");
            }
            b.build()
        });
        tried += 1;
        if let Ok(g2) = r {
            if g == g2 {
                bviol(st, 12, spec, what, format!("{desc}: the graphs compare equal"));
            }
        }
    };
    // change one function (payload only, then each declaration entry)
    for i in 0..n {
        cmp(spec, format!("function {i} replaced by one with a different payload"), st, Some((i, 1)));
        let t = spec.decl.first().map(|d| d.len()).unwrap_or(0);
        for k in 0..t {
            for a in 0..3u8 {
                if spec.decl[i][k] != a {
                    let mut m = spec.clone();
                    m.decl[i][k] = a;
                    cmp(&m, format!("function {i} access to type {k} changed to {a}"), st, None);
                }
            }
        }
    }
    let mut tried_batch = 0u64;
    // the batch forms: flipping the kind of one edge must give an unequal graph there as well, and
    // a graph built through the batch forms must equal the one built call by call
    if !spec.edges.is_empty() {
        let build_batch = |m: &Spec| {
            catch_quiet(|| {
                let mut b = FnGraphBuilder::new();
                let ids: Vec<FnId> = (0..m.n).map(|i| b.add_fn(Node::new(i, m.acc(i).to_vec()))).collect();
                // consecutive edges of the same kind go into one batch of up to 3
                let mut i = 0;
                while i < m.edges.len() {
                    let c = m.edges[i].2;
                    let mut j = i;
                    while j < m.edges.len() && j < i + 3 && m.edges[j].2 == c {
                        j += 1;
                    }
                    let e: Vec<(FnId, FnId)> = m.edges[i..j].iter().map(|e| (ids[e.0], ids[e.1])).collect();
                    let r = match (e.len(), c) {
                        (1, false) => b.add_logic_edges([e[0]]).map(|_| ()),
                        (1, true) => b.add_contains_edges([e[0]]).map(|_| ()),
                        (2, false) => b.add_logic_edges([e[0], e[1]]).map(|_| ()),
                        (2, true) => b.add_contains_edges([e[0], e[1]]).map(|_| ()),
                        (_, false) => b.add_logic_edges([e[0], e[1], e[2]]).map(|_| ()),
                        (_, true) => b.add_contains_edges([e[0], e[1], e[2]]).map(|_| ()),
                    };
                    r.expect("acyclic");
                    i = j;
                }
                b.build()
            })
        };
        if let Ok(gb) = build_batch(spec) {
            tried_batch += 1;
            if !(gb == g) {
                bviol(st, 12, spec, what, "the graph built through add_logic_edges / add_contains_edges differs from the one built with add_logic_edge / add_contains_edge".into());
            }
            for k in 0..spec.edges.len() {
                let mut m = spec.clone();
                m.edges[k].2 = !m.edges[k].2;
                if let Ok(g2) = build_batch(&m) {
                    tried_batch += 1;
                    if gb == g2 {
                        bviol(st, 12, spec, what, format!("batch forms: kind of edge {k} flipped, the graphs compare equal"));
                    }
                }
            }
        }
    }
    // change one edge kind / endpoint
    for k in 0..spec.edges.len() {
        let mut m = spec.clone();
        m.edges[k].2 = !m.edges[k].2;
        cmp(&m, format!("kind of edge {k} flipped"), st, None);
        for end in 0..2 {
            for x in 0..n {
                let mut m = spec.clone();
                if end == 0 {
                    m.edges[k].0 = x;
                } else {
                    m.edges[k].1 = x;
                }
                if m.edges[k] == spec.edges[k] || m.edges[k].0 == m.edges[k].1 {
                    continue;
                }
                // must stay a sequence of effective calls: no repeated pair, acyclic
                let pairs: BTreeSet<(usize, usize)> = m.edges.iter().map(|e| (e.0, e.1)).collect();
                if pairs.len() != m.edges.len() || !acyclic(n, &m.user_edges()) {
                    continue;
                }
                cmp(&m, format!("endpoint {end} of edge {k} changed to {x}"), st, None);
            }
        }
    }
    let tried = tried + tried_batch;
    st.execs += tried;
    st.transitions += tried;
    st.count("mutated_call_sequences_compared", tried);
}

/// C14 on one built graph.
pub fn check_iteration(spec: &Spec, st: &mut Stats) {
    let n = spec.n;
    let Ok(mut g) = catch_quiet(|| timed_build(spec)) else { return };
    st.execs += 1;
    let raw = raw_edges(&g);
    let what = "iterate";
    let order_ok = |order: &[usize], forward: bool, name: &str, st: &mut Stats| {
        let mut pos = vec![usize::MAX; n];
        let mut ok = order.len() == n;
        for (p, &i) in order.iter().enumerate() {
            if i >= n || pos[i] != usize::MAX {
                ok = false;
                break;
            }
            pos[i] = p;
        }
        if !ok {
            bviol(st, 14, spec, what, format!("{name} visited {order:?}: not each function exactly once"));
            return;
        }
        for &(a, b, _) in &raw {
            let good = if forward { pos[a] < pos[b] } else { pos[b] < pos[a] };
            if !good {
                bviol(st, 14, spec, what, format!("{name} visited {order:?}: violates built edge {a}->{b}"));
                return;
            }
        }
    };
    let r = catch_quiet(|| {
        let mut out: Vec<(&'static str, bool, Vec<usize>)> = vec![];
        out.push(("iter", true, g.iter().map(|f| f.id).collect()));
        out.push(("iter_rev", false, g.iter_rev().map(|f| f.id).collect()));
        let mut t = g.toposort();
        let mut o = vec![];
        while let Some(id) = t.next(&g.graph) {
            o.push(id.index());
        }
        out.push(("toposort", true, o));
        out.push(("map", true, g.map(|f| f.id).collect()));
        out.push(("fold", true, g.fold(vec![], |mut s, f| {
            s.push(f.id);
            s
        })));
        let mut o = vec![];
        g.for_each(|f| o.push(f.id));
        out.push(("for_each", true, o));
        let tf: Result<Vec<usize>, ()> = g.try_fold(vec![], |mut s, f| {
            s.push(f.id);
            Ok(s)
        });
        out.push(("try_fold", true, tf.unwrap_or_default()));
        let mut o = vec![];
        let tfe: Result<(), ()> = g.try_for_each(|f| {
            o.push(f.id);
            Ok(())
        });
        if tfe.is_err() {
            o.clear();
        }
        out.push(("try_for_each", true, o));
        let ins: Vec<usize> = g.iter_insertion().map(|f| f.id).collect();
        let ins_mut: Vec<usize> = g.iter_insertion_mut().map(|f| f.id).collect();
        let ins_idx: Vec<(usize, usize)> = g.iter_insertion_with_indices().map(|(i, f)| (i.index(), f.id)).collect();
        let ins_rev: Vec<usize> = g.iter_insertion().rev().map(|f| f.id).collect();
        (out, ins, ins_mut, ins_idx, ins_rev)
    });
    let (out, ins, ins_mut, ins_idx, ins_rev) = match r {
        Ok(x) => x,
        Err(m) => {
            bviol(st, 14, spec, what, format!("sequential iteration panicked: {m}"));
            return;
        }
    };
    for (name, fwd, order) in &out {
        order_ok(order, *fwd, name, st);
    }
    st.transitions += (out.len() * n) as u64;
    let ident: Vec<usize> = (0..n).collect();
    if ins != ident || ins_mut != ident {
        bviol(st, 14, spec, what, format!("iter_insertion = {ins:?}, iter_insertion_mut = {ins_mut:?}"));
    }
    if ins_idx != ident.iter().map(|&i| (i, i)).collect::<Vec<_>>() {
        bviol(st, 14, spec, what, format!("iter_insertion_with_indices = {ins_idx:?}"));
    }
    if ins_rev != ident.iter().rev().copied().collect::<Vec<_>>() {
        bviol(st, 14, spec, what, format!("iter_insertion().rev() = {ins_rev:?}"));
    }
    // failure injected at every position
    let topo: Vec<usize> = out[0].2.clone();
    for k in 0..n {
        let r = catch_quiet(|| {
            let mut calls = vec![];
            let r1: Result<Vec<usize>, usize> = g.try_fold(vec![], |mut s, f| {
                calls.push(f.id);
                if calls.len() == k + 1 {
                    Err(f.id)
                } else {
                    s.push(f.id);
                    Ok(s)
                }
            });
            let mut calls2 = vec![];
            let r2: Result<(), usize> = g.try_for_each(|f| {
                calls2.push(f.id);
                if calls2.len() == k + 1 {
                    Err(f.id)
                } else {
                    Ok(())
                }
            });
            (r1, calls, r2, calls2)
        });
        st.transitions += 2 * (k as u64 + 1);
        match r {
            Ok((r1, calls, r2, calls2)) => {
                if calls.len() != k + 1 || r1 != Err(*calls.last().unwrap_or(&usize::MAX)) {
                    bviol(st, 14, spec, what, format!("try_fold failing at invocation {k}: returned {r1:?} after invoking {calls:?}"));
                }
                if calls2.len() != k + 1 || r2 != Err(*calls2.last().unwrap_or(&usize::MAX)) {
                    bviol(st, 14, spec, what, format!("try_for_each failing at invocation {k}: returned {r2:?} after invoking {calls2:?}"));
                }
                if calls != topo[..(k + 1).min(topo.len())] || calls2 != topo[..(k + 1).min(topo.len())] {
                    // not required to equal iter()'s order, but must be a valid prefix: every
                    // built-graph predecessor of an invoked function was invoked before it
                    for (name, c) in [("try_fold", &calls), ("try_for_each", &calls2)] {
                        for (p, &i) in c.iter().enumerate() {
                            for &(a, b, _) in &raw {
                                if b == i && !c[..p].contains(&a) {
                                    bviol(st, 14, spec, what, format!("{name} invoked {i} before its predecessor {a}: {c:?}"));
                                }
                            }
                        }
                    }
                }
            }
            Err(m) => bviol(st, 14, spec, what, format!("try_fold/try_for_each with failure at {k} panicked: {m}")),
        }
    }
    let h = hash64(&(eh(&raw), &topo));
    st.state_hashes.insert(h);
    if raw.iter().any(|e| e.2 == Edge::Data) {
        st.nontrivial_hashes.insert(h);
    }
}

// ---------------------------------------------------------------------------
// C14 over histories: every sequence of sequential calls on ONE graph value

#[derive(Clone, Copy, Debug, PartialEq, Eq)]
pub enum SeqOp {
    Iter,
    IterRev,
    MapFull,
    /// `map()` consumed for k items, then dropped
    MapPartial(usize),
    Fold,
    ForEach,
    TryFoldOk,
    /// fails at invocation p (0-based)
    TryFoldFail(usize),
    TryForEachOk,
    TryForEachFail(usize),
    /// a complete `for_each_concurrent_mut` run (default schedule) as part of the history
    AsyncRun,
}

impl SeqOp {
    fn code(&self) -> String {
        match self {
            SeqOp::Iter => "iter".into(),
            SeqOp::IterRev => "iter_rev".into(),
            SeqOp::MapFull => "map".into(),
            SeqOp::MapPartial(k) => format!("map_take{k}"),
            SeqOp::Fold => "fold".into(),
            SeqOp::ForEach => "for_each".into(),
            SeqOp::TryFoldOk => "try_fold".into(),
            SeqOp::TryFoldFail(p) => format!("try_fold_fail{p}"),
            SeqOp::TryForEachOk => "try_for_each".into(),
            SeqOp::TryForEachFail(p) => format!("try_for_each_fail{p}"),
            SeqOp::AsyncRun => "async_run".into(),
        }
    }

    fn parse(s: &str) -> Option<SeqOp> {
        let num = |pre: &str| s.strip_prefix(pre).and_then(|x| x.parse::<usize>().ok());
        Some(match s {
            "iter" => SeqOp::Iter,
            "iter_rev" => SeqOp::IterRev,
            "map" => SeqOp::MapFull,
            "fold" => SeqOp::Fold,
            "for_each" => SeqOp::ForEach,
            "try_fold" => SeqOp::TryFoldOk,
            "try_for_each" => SeqOp::TryForEachOk,
            "async_run" => SeqOp::AsyncRun,
            _ => {
                if let Some(k) = num("map_take") {
                    SeqOp::MapPartial(k)
                } else if let Some(p) = num("try_fold_fail") {
                    SeqOp::TryFoldFail(p)
                } else if let Some(p) = num("try_for_each_fail") {
                    SeqOp::TryForEachFail(p)
                } else {
                    return None;
                }
            }
        })
    }
}

fn seq_ops(n: usize) -> Vec<SeqOp> {
    let mut v = vec![SeqOp::Iter, SeqOp::IterRev, SeqOp::MapFull, SeqOp::Fold, SeqOp::ForEach, SeqOp::TryFoldOk, SeqOp::TryForEachOk, SeqOp::AsyncRun];
    for k in 0..n {
        v.push(SeqOp::MapPartial(k));
        v.push(SeqOp::TryFoldFail(k));
        v.push(SeqOp::TryForEachFail(k));
    }
    v
}

/// Runs one call; returns (functions invoked in order, error returned).
fn run_seq_op(g: &mut FnGraph<Node>, op: SeqOp) -> (Vec<usize>, Option<usize>) {
    match op {
        SeqOp::Iter => (g.iter().map(|f| f.id).collect(), None),
        SeqOp::IterRev => (g.iter_rev().map(|f| f.id).collect(), None),
        SeqOp::MapFull => (g.map(|f| f.id).collect(), None),
        SeqOp::MapPartial(k) => (g.map(|f| f.id).take(k).collect(), None),
        SeqOp::Fold => (
            g.fold(vec![], |mut s, f| {
                s.push(f.id);
                s
            }),
            None,
        ),
        SeqOp::ForEach => {
            let mut o = vec![];
            g.for_each(|f| o.push(f.id));
            (o, None)
        }
        SeqOp::TryFoldOk | SeqOp::TryFoldFail(_) => {
            let fail_at = if let SeqOp::TryFoldFail(p) = op { p } else { usize::MAX };
            let mut calls = vec![];
            let r: Result<(), usize> = g.try_fold((), |(), f| {
                calls.push(f.id);
                if calls.len() == fail_at.wrapping_add(1) {
                    Err(f.id)
                } else {
                    Ok(())
                }
            });
            (calls, r.err())
        }
        SeqOp::TryForEachOk | SeqOp::TryForEachFail(_) => {
            let fail_at = if let SeqOp::TryForEachFail(p) = op { p } else { usize::MAX };
            let mut calls = vec![];
            let r: Result<(), usize> = g.try_for_each(|f| {
                calls.push(f.id);
                if calls.len() == fail_at.wrapping_add(1) {
                    Err(f.id)
                } else {
                    Ok(())
                }
            });
            (calls, r.err())
        }
        SeqOp::AsyncRun => {
            let n = g.graph.node_count();
            let mut cfg = crate::engine_s::RunCfg::plain(crate::engine_s::Api { kind: crate::engine_s::Kind::ForEach, mutable: true, with: false }, n);
            cfg.imm_choice = false;
            let r = crate::engine_s::run_on(g, &cfg, vec![]);
            (r.ev.iter().filter_map(|e| if let crate::exec::Ev::Start(i) = e { Some(*i as usize) } else { None }).collect(), None)
        }
    }
}

/// What C14 says about one call's observation on a graph with built edges `raw`.
fn seq_op_verdict(n: usize, raw: &[(usize, usize, Edge)], op: SeqOp, calls: &[usize], err: Option<usize>) -> Option<String> {
    let mut pos = vec![usize::MAX; n];
    for (p, &i) in calls.iter().enumerate() {
        if i >= n || pos[i] != usize::MAX {
            return Some(format!("visited {calls:?}: a function more than once"));
        }
        pos[i] = p;
    }
    let backward = op == SeqOp::IterRev;
    for &(a, b, _) in raw {
        let (first, second) = if backward { (b, a) } else { (a, b) };
        if pos[second] != usize::MAX && (pos[first] == usize::MAX || pos[first] > pos[second]) {
            return Some(format!("visited {calls:?}: {second} before {first} although the built graph has the edge {a}->{b}"));
        }
    }
    let (want_len, want_err) = match op {
        SeqOp::MapPartial(k) => (k.min(n), false),
        SeqOp::TryFoldFail(p) | SeqOp::TryForEachFail(p) => (p + 1, true),
        _ => (n, false),
    };
    if calls.len() != want_len {
        return Some(format!("visited {calls:?}: {} functions instead of {want_len}", calls.len()));
    }
    if want_err && err != calls.last().copied() {
        return Some(format!("returned {err:?} after invoking {calls:?}"));
    }
    if !want_err && err.is_some() {
        return Some(format!("returned the error {err:?} although no function failed"));
    }
    None
}

/// Evaluates one history on a freshly built graph; the verdict is about the LAST call.
pub fn eval_iteration_history(spec: &Spec, ops: &[SeqOp], st: &mut Stats) {
    let what = format!("iterate_history:{}", ops.iter().map(|o| o.code()).collect::<Vec<_>>().join(","));
    let Ok(mut g) = catch_quiet(|| timed_build(spec)) else { return };
    let raw = raw_edges(&g);
    st.execs += 1;
    st.transitions += ops.len() as u64;
    let r = catch_quiet(|| {
        let mut last = (vec![], None);
        for &op in ops {
            last = run_seq_op(&mut g, op);
        }
        last
    });
    match r {
        Err(m) => bviol(st, 14, spec, &what, format!("history {what}: panicked: {m}")),
        Ok((calls, err)) => {
            let op = *ops.last().expect("non-empty history");
            if let Some(m) = seq_op_verdict(spec.n, &raw, op, &calls, err) {
                bviol(st, 14, spec, &what, format!("after the calls {:?} on the same graph value, {} {m}", ops[..ops.len() - 1].iter().map(|o| o.code()).collect::<Vec<_>>(), op.code()));
            }
            let h = hash64(&(spec.short(), ops.iter().map(|o| o.code()).collect::<Vec<_>>(), &calls, err));
            st.state_hashes.insert(h);
            if ops.len() >= 2 && ops[..ops.len() - 1].iter().any(|o| matches!(o, SeqOp::MapPartial(_) | SeqOp::TryFoldFail(_) | SeqOp::TryForEachFail(_))) {
                st.nontrivial_hashes.insert(h);
            }
        }
    }
}

/// Every history of at most `depth` sequential calls on one graph value.
pub fn check_iteration_histories(spec: &Spec, depth: usize, st: &mut Stats) {
    let ops = seq_ops(spec.n);
    let mut stack: Vec<Vec<SeqOp>> = ops.iter().map(|&o| vec![o]).collect();
    while let Some(h) = stack.pop() {
        eval_iteration_history(spec, &h, st);
        if h.len() < depth {
            for &o in &ops {
                let mut h2 = h.clone();
                h2.push(o);
                stack.push(h2);
            }
        }
    }
    st.fold_hashes();
}

pub fn replay_iteration_history(spec: &Spec, what: &str, st: &mut Stats) {
    let ops: Vec<SeqOp> = what.trim_start_matches("iterate_history:").split(',').filter_map(SeqOp::parse).collect();
    if !ops.is_empty() {
        eval_iteration_history(spec, &ops, st);
    }
}

/// C17 on one built graph.
pub fn check_graph_info(spec: &Spec, yaml: bool, st: &mut Stats) {
    let n = spec.n + (spec.prov == 6) as usize;
    let Ok(g) = catch_quiet(|| timed_build(spec)) else { return };
    st.execs += 1;
    let raw = raw_edges(&g);
    let what = "graph_info";
    let r = catch_quiet(|| {
        let gi: GraphInfo<(usize, Vec<u8>)> = GraphInfo::from_graph(&g, |f| (f.id * 7 + 1, f.acc.clone()));
        let nodes: Vec<(usize, Vec<u8>)> = gi.iter_insertion_with_indices().map(|(_, v)| v.clone()).collect();
        let idx: Vec<usize> = gi.iter_insertion_with_indices().map(|(i, _)| i.index()).collect();
        let edges: Vec<(usize, usize, Edge)> = gi.graph.raw_edges().iter().map(|e| (e.source().index(), e.target().index(), e.weight)).collect();
        let it: Vec<usize> = gi.iter().map(|v| (v.0 - 1) / 7).collect();
        let itr: Vec<usize> = gi.iter_rev().map(|v| (v.0 - 1) / 7).collect();
        let rt = if yaml {
            let y = serde_yaml_ng::to_string(&gi).map_err(|e| format!("serialise: {e}"));
            Some(y.and_then(|y| {
                serde_yaml_ng::from_str::<GraphInfo<(usize, Vec<u8>)>>(&y)
                    .map(|b| {
                        // the value read back must be equal AND behave like the original:
                        // same nodes, edges and iteration
                        let b_nodes: Vec<(usize, Vec<u8>)> = b.iter_insertion_with_indices().map(|(_, v)| v.clone()).collect();
                        let b_edges: Vec<(usize, usize, Edge)> = b.graph.raw_edges().iter().map(|e| (e.source().index(), e.target().index(), e.weight)).collect();
                        let b_it: Vec<usize> = b.iter().map(|v| (v.0 - 1) / 7).collect();
                        let b_itr: Vec<usize> = b.iter_rev().map(|v| (v.0 - 1) / 7).collect();
                        let y2 = serde_yaml_ng::to_string(&b).unwrap_or_default();
                        let same = b_nodes == nodes && eh(&b_edges) == eh(&edges) && b_it == it && b_itr == itr && y2 == y;
                        (b == gi && gi == b, same)
                    })
                    .map_err(|e| format!("deserialise: {e}"))
            }))
        } else {
            None
        };
        (nodes, idx, edges, it, itr, rt)
    });
    let (nodes, idx, edges, it, itr, rt) = match r {
        Ok(x) => x,
        Err(m) => {
            bviol(st, 17, spec, what, format!("GraphInfo panicked: {m}"));
            return;
        }
    };
    st.transitions += (n + raw.len()) as u64;
    let want_nodes: Vec<(usize, Vec<u8>)> = (0..n).map(|i| (i * 7 + 1, if i < spec.n { spec.acc(i).to_vec() } else { vec![] })).collect();
    if nodes != want_nodes || idx != (0..n).collect::<Vec<_>>() {
        bviol(st, 17, spec, what, format!("from_graph nodes {nodes:?} (indices {idx:?}), expected {want_nodes:?}"));
    }
    {
        // "exactly its edges with kinds": compared as multisets (the order is not part of the
        // statement; equality after the round trip is checked separately)
        let mut a = eh(&edges);
        let mut b = eh(&raw);
        a.sort_unstable();
        b.sort_unstable();
        if a != b {
            bviol(st, 17, spec, what, format!("from_graph edges {edges:?}, graph edges {raw:?}"));
        }
    }
    for (name, order, fwd) in [("iter", &it, true), ("iter_rev", &itr, false)] {
        let mut pos = vec![usize::MAX; n];
        let mut ok = order.len() == n;
        for (p, &i) in order.iter().enumerate() {
            if i >= n || pos[i] != usize::MAX {
                ok = false;
                break;
            }
            pos[i] = p;
        }
        if !ok {
            bviol(st, 17, spec, what, format!("GraphInfo::{name} visited {order:?}: not every node exactly once"));
            continue;
        }
        for &(a, b, _) in &raw {
            if (fwd && pos[a] > pos[b]) || (!fwd && pos[a] < pos[b]) {
                bviol(st, 17, spec, what, format!("GraphInfo::{name} visited {order:?}: violates edge {a}->{b}"));
                break;
            }
        }
    }
    match rt {
        Some(Ok((eq, same))) => {
            st.count("yaml_round_trips", 1);
            if !eq {
                bviol(st, 17, spec, what, "serialise + deserialise gives a GraphInfo that is not equal".into());
            }
            if !same {
                bviol(st, 17, spec, what, "the GraphInfo read back differs from the original in its nodes, edges, iter()/iter_rev() order or re-serialised text".into());
            }
        }
        Some(Err(m)) => bviol(st, 17, spec, what, format!("YAML round trip failed: {m}")),
        None => {}
    }
    let h = hash64(&(eh(&raw), &nodes));
    st.state_hashes.insert(h);
    if raw.iter().any(|e| e.2 == Edge::Data) {
        st.nontrivial_hashes.insert(h);
    }
}

/// Builds in progress, for the "builds promptly" watchdog of C18: (started, input).
pub static IN_PROGRESS: std::sync::Mutex<Vec<(std::thread::ThreadId, Instant, String)>> = std::sync::Mutex::new(Vec::new());

fn watch_begin(spec: &Spec) {
    let id = std::thread::current().id();
    let mut w = IN_PROGRESS.lock().unwrap();
    w.retain(|e| e.0 != id);
    w.push((std::thread::current().id(), Instant::now(), serde_json::to_string(spec).unwrap_or_default()));
}

fn watch_end() {
    let id = std::thread::current().id();
    let mut w = IN_PROGRESS.lock().unwrap();
    w.retain(|e| e.0 != id);
}

/// Returns the input of a build that has been running for longer than `limit`.
pub fn watch_overdue(limit: std::time::Duration) -> Option<(String, f64)> {
    let w = IN_PROGRESS.lock().unwrap();
    w.iter().find(|e| e.1.elapsed() > limit).map(|e| (e.2.clone(), e.1.elapsed().as_secs_f64()))
}

/// C18 on one input: rank computation pops each function at most n times.
pub fn check_pops(spec: &Spec, st: &mut Stats) {
    let n = spec.n as u64;
    let bound_total = n * n + n;
    fn_graph::verif_hooks::rank_pops_reset(4 * bound_total + 16);
    let t0 = Instant::now();
    watch_begin(spec);
    let r = catch_quiet(|| crate::graphs::build(spec));
    watch_end();
    let pops = fn_graph::verif_hooks::rank_pops();
    fn_graph::verif_hooks::rank_pops_reset(0);
    st.execs += 1;
    st.transitions += pops.total;
    let what = "rank_pops";
    let maxp = pops.per_fn.iter().copied().max().unwrap_or(0);
    if r.is_err() && pops.total > 4 * bound_total {
        bviol(st, 18, spec, what, format!("rank computation aborted after {} queue pops (> 4(n^2+n) = {}), n = {n}", pops.total, 4 * bound_total));
        return;
    }
    if maxp > n.max(1) {
        let who = pops.per_fn.iter().position(|p| *p == maxp).unwrap();
        bviol(st, 18, spec, what, format!("function {who} was popped {maxp} times, n = {n}"));
    }
    if pops.total > bound_total {
        bviol(st, 18, spec, what, format!("{} queue pops in total, bound n^2+n = {bound_total}", pops.total));
    }
    st.max_polls = st.max_polls.max(maxp);
    st.count("builds_timed", 1);
    let ms = t0.elapsed().as_millis() as u64;
    if ms > *st.counters.get("slowest_build_ms").unwrap_or(&0) {
        st.counters.insert("slowest_build_ms".into(), ms);
    }
    let h = hash64(&(spec.n, &spec.edges));
    st.state_hashes.insert(h);
    if pops.total > n {
        st.nontrivial_hashes.insert(h);
    }
}

// ---------------------------------------------------------------------------
// input enumeration

/// All kind assignments (2^|E|) for a shape when |E| <= max_all, else 3 of them.
fn kind_variants(n: usize, e: &[(usize, usize)], max_all: usize) -> Vec<Spec> {
    let m = e.len();
    let masks: Vec<u32> = if m <= max_all {
        (0..1u32 << m).collect()
    } else {
        let alt = (0..m).filter(|k| k % 2 == 1).fold(0u32, |a, k| a | 1 << k);
        vec![0, alt, (1u32 << m) - 1]
    };
    masks
        .into_iter()
        .map(|mask| Spec { n, edges: e.iter().enumerate().map(|(k, &(a, b))| (a, b, mask >> k & 1 == 1)).collect(), decl: vec![], redeclare: 0, prov: 0 })
        .collect()
}

/// Enumerates (shape, edge order, kinds, declaration) inputs and calls `f` on each, in parallel
/// over shapes.
pub struct BuildSpace {
    pub label: String,
    pub n: usize,
    pub t: usize,
    /// all edge-order permutations up to this many edges, {given, reversed} beyond
    pub perm_max: usize,
    /// all kind assignments up to this many edges
    pub kinds_max: usize,
}

pub fn run_build_space(sp: &BuildSpace, deadline: Instant, f: &(dyn Fn(&Spec, &mut Stats) + Sync), total: &mut Stats, log: &mut Vec<Value>) {
    let ds = dags(sp.n);
    let nd = decl_count(sp.n, sp.t);
    let t0 = Instant::now();
    let mut st = Stats::default();
    let capped = par_for(
        ds.len(),
        deadline,
        Stats::default,
        |i, local: &mut Stats| {
            let e = ds.edges(i);
            for eo in edge_orders(&e, sp.perm_max) {
                for mut s in kind_variants(sp.n, &eo, sp.kinds_max) {
                    for d in 0..nd {
                        s.decl = if sp.t == 0 { vec![] } else { decl_decode(sp.n, sp.t, d) };
                        f(&s, local);
                        if local.samples.len() < 2 && local.execs % 97 == 1 {
                            local.samples.push(json!({"input": s.short()}));
                        }
                    }
                }
            }
            local.fold_hashes();
        },
        |l| st.merge(l),
    );
    st.capped |= capped;
    log.push(json!({"space": sp.label, "shapes": ds.len(), "inputs": st.execs, "completed": !st.capped, "wall_s": t0.elapsed().as_secs_f64()}));
    eprintln!("  [{}] shapes={} inputs={} viol={} {}{:.1}s", sp.label, ds.len(), st.execs, st.viol_total, if st.capped { "CAPPED " } else { "" }, t0.elapsed().as_secs_f64());
    total.merge(st);
}

pub fn run_family_space(label: &str, members: Vec<(Family, usize)>, deadline: Instant, f: &(dyn Fn(&Spec, &mut Stats) + Sync), total: &mut Stats, log: &mut Vec<Value>) {
    let t0 = Instant::now();
    let mut st = Stats::default();
    let capped = par_for(
        members.len(),
        deadline,
        Stats::default,
        |i, local: &mut Stats| {
            let (fam, k) = members[i];
            let (n, e) = family(fam, k);
            let s = Spec::plain(n, &e);
            f(&s, local);
            if local.samples.len() < 2 {
                local.samples.push(json!({"family": format!("{fam:?}({k})"), "n": n, "edges": e.len()}));
            }
            // the same shape with the edges inserted in reverse order
            let mut r = e.clone();
            r.reverse();
            f(&Spec::plain(n, &r), local);
            local.fold_hashes();
        },
        |l| st.merge(l),
    );
    st.capped |= capped;
    log.push(json!({"space": label, "members": members.len(), "inputs": st.execs, "completed": !st.capped, "wall_s": t0.elapsed().as_secs_f64()}));
    eprintln!("  [{label}] members={} inputs={} viol={} {}{:.1}s", members.len(), st.execs, st.viol_total, if st.capped { "CAPPED " } else { "" }, t0.elapsed().as_secs_f64());
    total.merge(st);
}


// ---------------------------------------------------------------------------
// larger graphs with declarations: enumerated parameter families (sizes beyond the exhaustive
// range matter, e.g. std's sort is stable by construction only up to 20 elements)

fn decl_pattern(p: usize, i: usize) -> Vec<u8> {
    match p {
        0 => vec![2, 0],
        1 => {
            if i % 2 == 0 {
                vec![2, 0]
            } else {
                vec![1, 0]
            }
        }
        2 => match i % 3 {
            0 => vec![2, 0],
            1 => vec![1, 2],
            _ => vec![0, 1],
        },
        3 => {
            if i % 4 < 2 {
                vec![1, 1]
            } else {
                vec![0, 2]
            }
        }
        4 => vec![1, 1],
        _ => match (i * 7 + 3) % 5 {
            0 => vec![2, 1],
            1 => vec![1, 0],
            2 => vec![0, 0],
            3 => vec![0, 2],
            _ => vec![1, 1],
        },
    }
}

/// (name, n, edges) of the shapes used with declarations.
fn declared_shapes(k: usize) -> Vec<(String, usize, Vec<(usize, usize)>)> {
    let mut v = vec![];
    v.push((format!("antichain({k})"), k, vec![]));
    // zigzag: odd nodes are roots, even nodes depend on their odd neighbour: ranks 1,0,1,0,...
    if 2 * k <= 64 {
        v.push((format!("zigzag({k})"), 2 * k, (0..k).map(|j| (2 * j + 1, 2 * j)).collect()));
    }
    // descending chain over the first half (i+1 -> i), second half isolated
    let h = k / 2;
    v.push((format!("descending_chain_plus_isolated({k})"), k, (0..h.saturating_sub(1)).map(|i| (i + 1, i)).collect()));
    for (fam, name) in [(Family::StarRev, "star_centre_last"), (Family::FanOut, "fan_out"), (Family::FanIn, "fan_in"), (Family::BinTree, "bin_tree")] {
        let (n, e) = family(fam, k);
        if n <= 64 {
            v.push((format!("{name}({k})"), n, e));
        }
    }
    for w in [2usize, 3] {
        let (n, e) = family(Family::Layered(w), k / w + 1);
        if n <= 64 {
            // insert the layers' nodes interleaved so that insertion order differs from rank order
            v.push((format!("layered{w}({})", k / w + 1), n, e.clone()));
            let perm: Vec<usize> = (0..n).map(|i| (i * 5 + 2) % n).collect();
            let mut seen = vec![false; n];
            if perm.iter().all(|&x| !std::mem::replace(&mut seen[x], true)) {
                v.push((format!("layered{w}({}) relabelled", k / w + 1), n, e.iter().map(|&(a, b)| (perm[a], perm[b])).collect()));
            }
        }
    }
    v
}

/// Many data types (more than 64, 128): sizes around the word-size thresholds.
pub fn many_type_specs() -> Vec<(String, Spec)> {
    let mut v = vec![];
    for k in [31usize, 33, 63, 64, 65, 66, 70, 127, 129, 130] {
        // 0: function i writes type i only (no conflicts at all)
        // 1: function i writes type i and reads type i+1 (neighbours conflict)
        // 2: as 0 plus one last function that reads every type
        for pat in 0..3 {
            let n = if pat == 2 { k + 1 } else { k };
            let mut s = Spec::plain(n, &[]);
            s.decl = (0..n)
                .map(|i| {
                    let mut acc = vec![0u8; k];
                    if i < k {
                        acc[i] = 2;
                        if pat == 1 {
                            acc[(i + 1) % k] = 1;
                        }
                    } else {
                        acc.iter_mut().for_each(|a| *a = 1);
                    }
                    acc
                })
                .collect();
            v.push((format!("{k} data types, pattern {pat}"), s));
        }
    }
    v
}

/// Two conflicting functions separated (in insertion / rank order) by k unrelated ones.
pub fn sparse_conflict_specs() -> Vec<(String, Spec)> {
    let mut v = vec![];
    for k in [1usize, 6, 7, 8, 15, 16, 17, 31, 32, 33, 63, 64, 65, 127, 128, 129, 253, 254, 255, 256, 257, 300] {
        for variant in 0..3 {
            // variant 0: E, fillers.., P, X with P -> X       (E and X write the same type)
            // variant 1: P, X, E, fillers..  with P -> X       (same, other insertion order)
            // variant 2: E, fillers.., X                        (no edge at all)
            let n = if variant == 2 { k + 2 } else { k + 3 };
            let (e, x, edges): (usize, usize, Vec<(usize, usize)>) = match variant {
                0 => (0, k + 2, vec![(k + 1, k + 2)]),
                1 => (2, 1, vec![(0, 1)]),
                _ => (0, k + 1, vec![]),
            };
            let mut s = Spec::plain(n, &edges);
            s.decl = (0..n).map(|i| if i == e || i == x { vec![2] } else { vec![0] }).collect();
            v.push((format!("two writers {k} unrelated functions apart, variant {variant}"), s));
        }
    }
    v
}

/// Declared shapes at sizes around the byte-size thresholds (255..258) and well beyond (300; 513
/// in the thorough tier): counters, stamps or indices narrowed to `u8` wrap here. Every adjacent
/// pair of an antichain conflicts in pattern 0, so a single skipped comparison shows.
pub fn size_threshold_specs(tier: &str) -> Vec<(String, Spec)> {
    let ks: &[usize] = if tier == "thorough" { &[255, 256, 257, 258, 260, 300, 513] } else { &[256, 257, 300] };
    let mut v = vec![];
    for &k in ks {
        let mut shapes: Vec<(String, usize, Vec<(usize, usize)>)> = vec![(format!("antichain({k})"), k, vec![])];
        shapes.push((format!("descending_chain_plus_isolated({k})"), k, (0..(k / 2).saturating_sub(1)).map(|i| (i + 1, i)).collect()));
        for (fam, name) in [(Family::FanOut, "fan_out"), (Family::FanIn, "fan_in"), (Family::StarRev, "star_centre_last"), (Family::Chain, "chain")] {
            let (n, e) = family(fam, k);
            shapes.push((format!("{name}({k})"), n, e));
        }
        // ranks up to k - 1 with insertion order opposite to rank order
        shapes.push((format!("descending_chain({k})"), k, (0..k - 1).map(|i| (i + 1, i)).collect()));
        let (n, e) = family(Family::Layered(2), k / 2 + 1);
        shapes.push((format!("layered2({})", k / 2 + 1), n, e));
        for (name, n, e) in shapes {
            for p in [0usize, 1, 2, 5] {
                let mut s = Spec::plain(n, &e);
                s.decl = (0..n).map(|i| decl_pattern(p, i)).collect();
                v.push((format!("{name} pattern {p}"), s));
            }
        }
    }
    v
}

/// Dense regions with access declarations (C18: the data-edge step must build promptly too).
pub fn dense_declared_specs(kmax: usize) -> Vec<Spec> {
    let mut v = vec![];
    let mut regions: Vec<(usize, Vec<(usize, usize)>)> = vec![];
    for k in [8usize, 16, 24, 32, 40, 48] {
        if k > kmax {
            continue;
        }
        regions.push(family(Family::Complete, k));
        for w in [2usize, 3, 4] {
            regions.push(family(Family::Layered(w), k / w));
        }
        regions.push(family(Family::Diamonds, k / 3));
    }
    for (m, e) in regions {
        // the region alone: all writers / mixed
        for p in [0usize, 2] {
            let mut s = Spec::plain(m, &e);
            s.decl = (0..m).map(|i| decl_pattern(p, i)).collect();
            v.push(s);
        }
        // region (no access) + independent chain of the same length; one function of the region
        // and one of the chain access the same type, no path between them
        for (in_region, in_chain) in [(0usize, 2 * m - 1), (0, m), (m - 1, m), (m - 1, 2 * m - 1)] {
            for (a, b) in [(2u8, 1u8), (1, 2), (2, 2)] {
                let mut edges = e.clone();
                edges.extend((m..2 * m - 1).map(|i| (i, i + 1)));
                let mut s = Spec::plain(2 * m, &edges);
                s.decl = (0..2 * m).map(|i| if i == in_region { vec![a] } else if i == in_chain { vec![b] } else { vec![0] }).collect();
                v.push(s.clone());
                // chain inserted first
                let perm = |i: usize| if i < m { i + m } else { i - m };
                let mut t = Spec::plain(2 * m, &edges.iter().map(|&(x, y)| (perm(x), perm(y))).collect::<Vec<_>>());
                t.decl = (0..2 * m).map(|i| s.decl[perm(i)].clone()).collect();
                v.push(t);
            }
        }
    }
    v
}

/// Irregular graphs from an arithmetic rule: edge i -> j (i < j) iff (a*i + j) mod m < t, for
/// every (m, a, t) of a grid, under three labellings.
pub fn arithmetic_specs(ns: &[usize], with_decl: bool) -> Vec<(String, Spec)> {
    let mut v = vec![];
    for &n in ns {
        for m in 2..=6usize {
            for a in 1..m {
                for t in 1..m {
                    let base: Vec<(usize, usize)> = (0..n).flat_map(|i| (i + 1..n).map(move |j| (i, j))).filter(|&(i, j)| (a * i + j) % m < t).collect();
                    for lab in 0..3 {
                        let perm: Vec<usize> = match lab {
                            0 => (0..n).collect(),
                            1 => (0..n).rev().collect(),
                            _ => {
                                let p: Vec<usize> = (0..n).map(|i| (i * 7 + 3) % n).collect();
                                let mut seen = vec![false; n];
                                if p.iter().any(|&x| std::mem::replace(&mut seen[x], true)) {
                                    continue;
                                }
                                p
                            }
                        };
                        let e: Vec<(usize, usize)> = base.iter().map(|&(i, j)| (perm[i], perm[j])).collect();
                        let pats: &[usize] = if with_decl { &[2, 5, 9] } else { &[9] };
                        for &pat in pats {
                            let mut s = Spec::plain(n, &e);
                            if pat != 9 {
                                s.decl = (0..n).map(|i| decl_pattern(pat, i)).collect();
                            }
                            v.push((format!("arithmetic n={n} m={m} a={a} t={t} labelling {lab} pattern {pat}"), s));
                        }
                    }
                }
            }
        }
    }
    v
}

pub fn run_declared_families(tier: &str, deadline: Instant, f: &(dyn Fn(&Spec, &mut Stats) + Sync), total: &mut Stats, log: &mut Vec<Value>) {
    let ks: Vec<usize> = if tier == "thorough" { (2..=60).collect() } else { vec![4, 7, 12, 19, 20, 21, 22, 24, 29, 32, 40, 48] };
    let mut specs = vec![];
    for &k in &ks {
        for (name, n, e) in declared_shapes(k) {
            for p in 0..6 {
                let mut s = Spec::plain(n, &e);
                s.decl = (0..n).map(|i| decl_pattern(p, i)).collect();
                specs.push((format!("{name} pattern {p}"), s));
            }
        }
    }
    let n_decl = specs.len();
    specs.extend(many_type_specs());
    specs.extend(sparse_conflict_specs());
    specs.extend(size_threshold_specs(tier));
    // every edge given more than once: batch / single-call forms, same / other kind (Spec::redeclare)
    for s0 in crate::props_run::shapes_upto(2, 4, false).into_iter().filter(|s| !s.edges.is_empty()) {
        for r in 1u8..=4 {
            for p in [0usize, 2] {
                let mut s = s0.clone();
                s.redeclare = r;
                s.decl = (0..s.n).map(|i| decl_pattern(p, i)).collect();
                specs.push((format!("redeclare {r} pattern {p}"), s));
            }
        }
    }
    for k in [6usize, 9, 20] {
        for (name, n, e) in declared_shapes(k) {
            if e.is_empty() {
                continue;
            }
            for r in 1u8..=4 {
                let mut s = Spec::plain(n, &e);
                s.redeclare = r;
                s.decl = (0..n).map(|i| decl_pattern(2, i)).collect();
                specs.push((format!("{name} redeclare {r}"), s));
            }
        }
    }
    // graph values of unusual provenance (Spec::prov): clone, other thread, deref_mut, new(), default()
    for mut s in crate::props_run::provenance_specs(4) {
        for p in [0usize, 2] {
            s.decl = (0..s.n).map(|i| decl_pattern(p, i)).collect();
            specs.push((format!("provenance {} pattern {p}", s.prov), s.clone()));
        }
    }
    let arith_ns: Vec<usize> = if tier == "thorough" { vec![7, 8, 9, 10, 11, 12, 14, 16, 20, 24, 32, 40, 48] } else { vec![8, 10, 12, 16, 24, 40] };
    specs.extend(arithmetic_specs(&arith_ns, true));
    let t0 = Instant::now();
    let mut st = Stats::default();
    let specs_ref = &specs;
    let capped = par_for(
        specs.len(),
        deadline,
        Stats::default,
        |i, local: &mut Stats| {
            let (name, s) = &specs_ref[i];
            let n = s.n as u64;
            fn_graph::verif_hooks::rank_pops_reset(16 * (n * n + n) + 64);
            f(s, local);
            fn_graph::verif_hooks::rank_pops_reset(0);
            if local.samples.len() < 1 && i % 37 == 5 {
                local.samples.push(json!({"family": name, "n": s.n, "user_edges": s.edges.len()}));
            }
            local.fold_hashes();
        },
        |l| st.merge(l),
    );
    st.capped |= capped;
    let label = format!(
        "enumerated families: {n_decl} declared shapes (antichain, zigzag, descending chain, stars, fans, trees, layered; 6 access patterns; k in {ks:?}); 31..130 data types in 3 patterns; two writers 1..300 unrelated functions apart; all shapes on 2..4 functions and families with every edge given again (batch / single-call form, same / other kind); all shapes on <= 4 functions as clones / built on another thread / after deref_mut() / FnGraph::new() / default(); declared antichain/chains/fans/star/layered shapes of 256, 257, 300 functions (255..513 thorough); arithmetic irregular DAGs n in {arith_ns:?} x (m,a,t) grid x 3 labellings x 3 access patterns"
    );
    log.push(json!({"space": label, "inputs": st.execs, "completed": !st.capped, "wall_s": t0.elapsed().as_secs_f64()}));
    eprintln!("  [enumerated families, {} inputs] viol={} {}{:.1}s", specs.len(), st.viol_total, if st.capped { "CAPPED " } else { "" }, t0.elapsed().as_secs_f64());
    total.merge(st);
}

/// Every (topologically labelled DAG on n nodes, declaration over one type): all isomorphism
/// classes of shapes with every declaration.
pub fn run_topo_decl_space(n: usize, alphabet: &[u8], deadline: Instant, f: &(dyn Fn(&Spec, &mut Stats) + Sync), total: &mut Stats, log: &mut Vec<Value>) {
    let shapes = crate::graphs::topo_dag_specs(n);
    let nd = alphabet.len().pow(n as u32);
    let t0 = Instant::now();
    let mut st = Stats::default();
    let shapes_ref = &shapes;
    let capped = par_for(
        shapes.len(),
        deadline,
        Stats::default,
        |i, local: &mut Stats| {
            let mut s = shapes_ref[i].clone();
            for d in 0..nd {
                let mut code = d;
                s.decl = (0..n)
                    .map(|_| {
                        let a = alphabet[code % alphabet.len()];
                        code /= alphabet.len();
                        vec![a]
                    })
                    .collect();
                f(&s, local);
            }
            if local.samples.len() < 1 && i % 4099 == 7 {
                local.samples.push(json!({"input": s.short()}));
            }
            local.fold_hashes();
        },
        |l| st.merge(l),
    );
    st.capped |= capped;
    let label = format!("all {} topologically labelled DAGs on {n} nodes (every isomorphism class) x all {nd} declarations over one type with access in {alphabet:?} (0 none, 1 read, 2 write)", shapes.len());
    log.push(json!({"space": label, "inputs": st.execs, "completed": !st.capped, "wall_s": t0.elapsed().as_secs_f64()}));
    eprintln!("  [{label}] inputs={} viol={} {}{:.1}s", st.execs, st.viol_total, if st.capped { "CAPPED " } else { "" }, t0.elapsed().as_secs_f64());
    total.merge(st);
}

// ---------------------------------------------------------------------------
// C16: builder call sequences

#[derive(Clone, Copy, Debug, PartialEq, Eq)]
struct Call {
    from: usize,
    to: usize,
    contains: bool,
}

/// Reference model of the builder: accepted edges in first-acceptance order, last kind wins.
#[derive(Clone, Default)]
struct RefBuilder {
    order: Vec<(usize, usize)>,
    kind: BTreeMap<(usize, usize), bool>,
}

impl RefBuilder {
    fn reaches(&self, a: usize, b: usize) -> bool {
        // path a ->* b, a == b counts
        let mut seen = HashSet::new();
        let mut st = vec![a];
        while let Some(x) = st.pop() {
            if x == b {
                return true;
            }
            if !seen.insert(x) {
                continue;
            }
            for &(s, t) in &self.order {
                if s == x {
                    st.push(t);
                }
            }
        }
        false
    }

    /// true = accepted
    fn call(&mut self, c: Call) -> bool {
        if self.kind.contains_key(&(c.from, c.to)) {
            self.kind.insert((c.from, c.to), c.contains);
            return true;
        }
        if self.reaches(c.to, c.from) {
            return false;
        }
        self.order.push((c.from, c.to));
        self.kind.insert((c.from, c.to), c.contains);
        true
    }
}

/// Which properties are judged on graphs built from call histories (bit k = property Ck).
static HISTORY_PROPS_DEFAULT: std::sync::atomic::AtomicU32 = std::sync::atomic::AtomicU32::new(1 << 16);

fn history_props() -> u32 {
    // worker threads start from the process-wide setting
    HISTORY_PROPS_DEFAULT.load(std::sync::atomic::Ordering::Relaxed)
}

pub fn set_history_props(props: &[u8]) {
    let m = props.iter().fold(0u32, |m, p| m | 1 << *p);
    HISTORY_PROPS_DEFAULT.store(m, std::sync::atomic::Ordering::Relaxed);
}

fn c16_eval(n: usize, calls: &[Call], batch: usize, st: &mut Stats) {
    c16_eval_mode(n, calls, batch, false, 0, st)
}

/// Mixed forms within one history: call i goes through the batch form (a batch of one) iff bit i
/// of `mask` is set, through the single form otherwise (S252: a pair first given through a batch
/// form and later through a single form).
fn c16_eval_mixed(n: usize, calls: &[Call], mask: u32, st: &mut Stats) {
    c16_eval_mode(n, calls, 0, false, mask, st)
}

/// `lazy`: functions are added only when a call first needs them (function i together with every
/// function before it), the rest after the last call - edge calls and `add_fn` interleave.
fn c16_eval_mode(n: usize, calls: &[Call], batch: usize, lazy: bool, mixed: u32, st: &mut Stats) {
    // batch = 0: single calls; batch = N: calls grouped into add_*_edges::<N> where the kinds agree
    let spec = Spec { n, edges: calls.iter().map(|c| (c.from, c.to, c.contains)).collect(), decl: vec![], redeclare: 0, prov: 0 };
    let what = if mixed != 0 {
        format!("call_sequence_mixed{mixed}{}", if lazy { "_lazy" } else { "" })
    } else if lazy {
        "call_sequence_lazy".to_string()
    } else if batch == 0 {
        "call_sequence".to_string()
    } else {
        format!("call_sequence_batch{batch}")
    };
    let props0 = history_props();
    let r = catch_quiet(|| {
        let mut b = FnGraphBuilder::new();
        let mut ids: Vec<FnId> = if lazy { vec![] } else { (0..n).map(|i| b.add_fn(Node::new(i, vec![]))).collect() };
        let mut results: Vec<bool> = vec![];
        if batch == 0 {
            for c in calls {
                while ids.len() <= c.from.max(c.to) {
                    let i = ids.len();
                    ids.push(b.add_fn(Node::new(i, vec![])));
                }
                let via_batch = mixed >> (results.len() % 32) & 1 == 1;
                let r = match (via_batch, c.contains) {
                    (false, true) => b.add_contains_edge(ids[c.from], ids[c.to]).map(|_| ()),
                    (false, false) => b.add_logic_edge(ids[c.from], ids[c.to]).map(|_| ()),
                    (true, true) => b.add_contains_edges([(ids[c.from], ids[c.to])]).map(|_| ()),
                    (true, false) => b.add_logic_edges([(ids[c.from], ids[c.to])]).map(|_| ()),
                };
                results.push(r.is_ok());
            }
            while ids.len() < n {
                let i = ids.len();
                ids.push(b.add_fn(Node::new(i, vec![])));
            }
        } else {
            for ch in calls.chunks(batch) {
                let contains = ch[0].contains;
                let ok = match ch.len() {
                    1 => {
                        let a = [(ids[ch[0].from], ids[ch[0].to])];
                        if contains { b.add_contains_edges(a).is_ok() } else { b.add_logic_edges(a).is_ok() }
                    }
                    2 => {
                        let a = [(ids[ch[0].from], ids[ch[0].to]), (ids[ch[1].from], ids[ch[1].to])];
                        if contains { b.add_contains_edges(a).is_ok() } else { b.add_logic_edges(a).is_ok() }
                    }
                    _ => {
                        let a = [(ids[ch[0].from], ids[ch[0].to]), (ids[ch[1].from], ids[ch[1].to]), (ids[ch[2].from], ids[ch[2].to])];
                        if contains { b.add_contains_edges(a).is_ok() } else { b.add_logic_edges(a).is_ok() }
                    }
                };
                results.push(ok);
            }
        }
        let mut g = b.build();
        let ranks: Vec<usize> = if props0 >> 13 & 1 == 1 { g.ranks().iter().map(|r| r.0).collect() } else { vec![] };
        let (mut it, mut itr, mut fold) = (vec![], vec![], vec![]);
        if props0 >> 14 & 1 == 1 {
            it = g.iter().map(|f| f.id).collect();
            itr = g.iter_rev().map(|f| f.id).collect();
            fold = g.fold(vec![], |mut v: Vec<usize>, f| {
                v.push(f.id);
                v
            });
        }
        let (mut gi_nodes, mut gi_edges) = (vec![], vec![]);
        if props0 >> 17 & 1 == 1 {
            let gi: GraphInfo<usize> = GraphInfo::from_graph(&g, |f| f.id);
            gi_nodes = gi.iter_insertion_with_indices().map(|(_, v)| *v).collect();
            gi_edges = gi.graph.raw_edges().iter().map(|e| (e.source().index(), e.target().index(), e.weight)).collect();
        }
        (results, raw_edges(&g), ranks, it, itr, fold, gi_nodes, gi_edges)
    });
    st.execs += 1;
    st.transitions += calls.len() as u64;
    let props = props0;
    let (results, raw, ranks, it, itr, fold, gi_nodes, gi_edges) = match r {
        Ok(x) => x,
        Err(m) => {
            for p in [11u8, 16] {
                if props >> p & 1 == 1 {
                    bviol(st, p, &spec, &what, format!("builder panicked: {m}"));
                }
            }
            return;
        }
    };
    let mut model = RefBuilder::default();
    let mut want: Vec<bool> = vec![];
    if batch == 0 {
        for c in calls {
            want.push(model.call(*c));
        }
    } else {
        for ch in calls.chunks(batch) {
            // a failing batch keeps the edges accepted before the failing element and stops
            let mut ok = true;
            for c in ch {
                let c = Call { contains: ch[0].contains, ..*c };
                if !model.call(c) {
                    ok = false;
                    break;
                }
            }
            want.push(ok);
        }
    }
    let has = |p: u8| props >> p & 1 == 1;
    if has(16) && results != want {
        bviol(st, 16, &spec, &what, format!("accept/reject results {results:?}, reference {want:?}"));
    }
    let want_edges: Vec<(usize, usize, Edge)> = model.order.iter().map(|p| (p.0, p.1, kind_of(model.kind[p]))).collect();
    let mut got = raw.clone();
    let mut wsorted = want_edges.clone();
    got.sort_by_key(|e| (e.0, e.1, ek(e.2)));
    wsorted.sort_by_key(|e| (e.0, e.1, ek(e.2)));
    if got != wsorted {
        for p in [11u8, 16] {
            if has(p) {
                bviol(st, p, &spec, &what, format!("edges of the built graph {raw:?}, reference (accepted pairs, each with the kind it was last given with) {want_edges:?}"));
            }
        }
    }
    // the graph-level properties hold for graphs built through any call history
    let accepted: Vec<(usize, usize)> = model.order.clone();
    if has(13) {
        let want_ranks = crate::graphs::longest_rank(n, &accepted);
        if ranks != want_ranks {
            bviol(st, 13, &spec, &what, format!("ranks() = {ranks:?}, longest chains over the accepted edges {accepted:?} = {want_ranks:?}"));
        }
    }
    if has(14) {
        for (name, order, fwd) in [("iter", &it, true), ("iter_rev", &itr, false), ("fold", &fold, true)] {
            let mut pos = vec![usize::MAX; n];
            let mut ok = order.len() == n;
            for (k, &i) in order.iter().enumerate() {
                if i >= n || pos[i] != usize::MAX {
                    ok = false;
                    break;
                }
                pos[i] = k;
            }
            if !ok {
                bviol(st, 14, &spec, &what, format!("{name} visited {order:?}: not each function exactly once"));
                continue;
            }
            if let Some(&(a, b)) = accepted.iter().find(|&&(a, b)| if fwd { pos[a] > pos[b] } else { pos[a] < pos[b] }) {
                bviol(st, 14, &spec, &what, format!("{name} visited {order:?}: violates the accepted edge {a}->{b}"));
            }
        }
    }
    if has(17) {
        let mut a = eh(&gi_edges);
        let mut b = eh(&raw);
        a.sort_unstable();
        b.sort_unstable();
        if a != b || gi_nodes != (0..n).collect::<Vec<_>>() {
            bviol(st, 17, &spec, &what, format!("GraphInfo nodes {gi_nodes:?} edges {gi_edges:?}, graph edges {raw:?}"));
        }
    }
    let h = hash64(&(eh(&want_edges), &want));
    st.state_hashes.insert(h);
    if want.iter().any(|w| !*w) {
        st.nontrivial_hashes.insert(h);
        st.count("sequences_with_a_rejected_call", 1);
    }
    if calls.len() > model.order.len() + want.iter().filter(|w| !**w).count() {
        st.count("sequences_with_a_repeated_pair", 1);
    }
}

pub fn run_c16(tier: &str, deadline: Instant, total: &mut Stats, log: &mut Vec<Value>) {
    set_history_props(&[16]);
    run_call_histories(tier, false, deadline, total, log);
}

/// The call-history spaces of C16 (rejected, repeated, batched, lazily interleaved calls) as
/// inputs for another builder-side property (`set_history_props` chooses the oracle); `light`:
/// shorter sequences, no probe search.
pub fn run_call_histories(tier: &str, light: bool, deadline: Instant, total: &mut Stats, log: &mut Vec<Value>) {
    let plans: Vec<(usize, usize)> = if light {
        if tier == "thorough" { vec![(2, 5), (3, 4), (4, 3)] } else { vec![(2, 4), (3, 3), (4, 2)] }
    } else if tier == "thorough" {
        vec![(2, 8), (3, 6), (4, 5)]
    } else {
        vec![(2, 5), (3, 4), (4, 3)]
    };
    for (n, maxlen) in plans {
        let alphabet: Vec<Call> = (0..n).flat_map(|a| (0..n).flat_map(move |b| [false, true].into_iter().map(move |c| Call { from: a, to: b, contains: c }))).collect();
        let k = alphabet.len();
        // parallel over the first two calls
        let firsts: Vec<Vec<usize>> = std::iter::once(vec![])
            .chain((0..k).map(|a| vec![a]))
            .chain((0..k).flat_map(|a| (0..k).map(move |b| vec![a, b])))
            .collect();
        let t0 = Instant::now();
        let mut st = Stats::default();
        let alphabet = &alphabet;
        let capped = par_for(
            firsts.len(),
            deadline,
            Stats::default,
            |i, local: &mut Stats| {
                let pre = &firsts[i];
                fn rec(alphabet: &[Call], seq: &mut Vec<usize>, maxlen: usize, n: usize, terminal_only: bool, local: &mut Stats) {
                    if !terminal_only || seq.len() >= 2 {
                        let calls: Vec<Call> = seq.iter().map(|&c| alphabet[c]).collect();
                        c16_eval(n, &calls, 0, local);
                        for batch in 1..=3usize {
                            if !calls.is_empty() && calls.chunks(batch).all(|ch| ch.iter().all(|c| c.contains == ch[0].contains)) {
                                c16_eval(n, &calls, batch, local);
                            }
                        }
                        // every assignment of the single / batch form to the calls (all-single and
                        // all-batch are the two runs above)
                        if calls.len() >= 2 && calls.len() <= 5 {
                            for mask in 1..(1u32 << calls.len()) - 1 {
                                c16_eval_mixed(n, &calls, mask, local);
                            }
                        }
                        if local.samples.len() < 2 && calls.len() >= 3 && local.execs % 50 == 3 {
                            local.samples.push(json!({"n": n, "calls": calls.iter().map(|c| format!("{}{}{}", c.from, if c.contains { "=>" } else { "->" }, c.to)).collect::<Vec<_>>()}));
                        }
                    }
                    if seq.len() < maxlen {
                        for c in 0..alphabet.len() {
                            seq.push(c);
                            rec(alphabet, seq, maxlen, n, false, local);
                            seq.pop();
                        }
                    }
                }
                let mut seq = pre.clone();
                if pre.len() < 2 {
                    // sequences of length 0 and 1 are evaluated on their own, without extension
                    let calls: Vec<Call> = seq.iter().map(|&c| alphabet[c]).collect();
                    c16_eval(n, &calls, 0, local);
                    if !calls.is_empty() {
                        c16_eval(n, &calls, 1, local);
                    }
                } else {
                    rec(alphabet, &mut seq, maxlen, n, true, local);
                }
                local.fold_hashes();
            },
            |l| st.merge(l),
        );
        st.capped |= capped;
        let label = format!("all call sequences over n={n} functions ({k} distinct calls incl. self edges), length <= {maxlen}, single forms, batch forms, and (length <= 5) every mix of the two within one history");
        log.push(json!({"space": label, "sequences": st.execs, "completed": !st.capped, "wall_s": t0.elapsed().as_secs_f64()}));
        eprintln!("  [{label}] evaluated={} viol={} {}{:.1}s", st.execs, st.viol_total, if st.capped { "CAPPED " } else { "" }, t0.elapsed().as_secs_f64());
        total.merge(st);
    }
    // sizes around the power-of-two thresholds: every sequence over five representative functions
    // (the first three and the last two), functions added up front and added lazily between calls
    let sizes: Vec<(usize, usize)> = if light {
        vec![(5, 2), (9, 2), (17, 2)]
    } else if tier == "thorough" {
        vec![(5, 4), (8, 3), (9, 4), (10, 3), (16, 3), (17, 3), (18, 3), (32, 3), (33, 3), (34, 3), (64, 3), (65, 3), (66, 3), (129, 3), (257, 2)]
    } else {
        vec![(5, 3), (9, 3), (17, 3), (33, 3), (65, 3), (129, 2)]
    };
    for (n, maxlen) in sizes {
        let reps = [0usize, 1, 2, n - 2, n - 1];
        let alphabet: Vec<Call> = reps.iter().flat_map(|&a| reps.iter().flat_map(move |&b| [false, true].into_iter().map(move |c| Call { from: a, to: b, contains: c }))).collect();
        let k = alphabet.len();
        let t0 = Instant::now();
        let mut st = Stats::default();
        let alphabet = &alphabet;
        let capped = par_for(
            k,
            deadline,
            Stats::default,
            |i, local: &mut Stats| {
                fn rec(alphabet: &[Call], seq: &mut Vec<usize>, maxlen: usize, n: usize, local: &mut Stats) {
                    let calls: Vec<Call> = seq.iter().map(|&c| alphabet[c]).collect();
                    c16_eval_mode(n, &calls, 0, false, 0, local);
                    c16_eval_mode(n, &calls, 0, true, 0, local);
                    // single and batch forms alternating within the history
                    if n <= 17 {
                        c16_eval_mode(n, &calls, 0, false, 0x5555_5555, local);
                        c16_eval_mode(n, &calls, 0, true, 0xAAAA_AAAA, local);
                    }
                    if seq.len() < maxlen {
                        for c in 0..alphabet.len() {
                            seq.push(c);
                            rec(alphabet, seq, maxlen, n, local);
                            seq.pop();
                        }
                    }
                }
                let mut seq = vec![i];
                rec(alphabet, &mut seq, maxlen, n, local);
                local.fold_hashes();
            },
            |l| st.merge(l),
        );
        st.capped |= capped;
        let label = format!("n={n} functions: all call sequences of length <= {maxlen} over the representative functions {reps:?} ({k} distinct calls), functions added up front / lazily between the calls{}", if n <= 17 { ", single forms and single / batch forms alternating" } else { "" });
        log.push(json!({"space": label, "sequences": st.execs, "completed": !st.capped, "wall_s": t0.elapsed().as_secs_f64()}));
        eprintln!("  [{label}] evaluated={} viol={} {}{:.1}s", st.execs, st.viol_total, if st.capped { "CAPPED " } else { "" }, t0.elapsed().as_secs_f64());
        total.merge(st);
    }
    if light {
        return;
    }
    // long histories (hundreds of calls on one builder): counters, stamps or caches kept by the
    // builder across calls (S214: a one-byte epoch that wraps at the 256th reachability search)
    {
        let hs = long_call_histories(tier);
        let t0 = Instant::now();
        let mut st = Stats::default();
        let hs_ref = &hs;
        let capped = par_for(
            hs.len(),
            deadline,
            Stats::default,
            |i, local: &mut Stats| {
                let (n, calls) = &hs_ref[i];
                c16_eval_mode(*n, calls, 0, false, 0, local);
                c16_eval_mode(*n, calls, 0, true, 0, local);
                c16_eval_mode(*n, calls, 0, false, 0x6DB6_DB6D, local);
                local.fold_hashes();
            },
            |l| st.merge(l),
        );
        st.capped |= capped;
        let longest = hs.iter().map(|h| h.1.len()).max().unwrap_or(0);
        let label = format!("{} long call histories (up to {longest} calls on one builder): the edges of a complete DAG / a layered graph on 24..40 functions in 3 orders, interleaved with cycle-closing, self, repeated and kind-changing calls every 1..4 calls at every offset", hs.len());
        log.push(json!({"space": label, "sequences": st.execs, "completed": !st.capped, "wall_s": t0.elapsed().as_secs_f64()}));
        eprintln!("  [{label}] evaluated={} viol={} {}{:.1}s", st.execs, st.viol_total, if st.capped { "CAPPED " } else { "" }, t0.elapsed().as_secs_f64());
        total.merge(st);
    }
    // deeper histories on more functions: grow a DAG edge by edge, probe every call in every state
    let probes: Vec<(usize, usize)> = if tier == "thorough" { vec![(5, 8), (6, 6), (6, 7)] } else { vec![(5, 7), (6, 6)] };
    for (n, depth) in probes {
        run_c16_probe(n, depth, deadline, total, log);
    }
}

/// C16, deeper on more functions: every sequence of `depth` *accepted new* logic edges over n
/// functions (i.e. every ordered way to grow a DAG edge by edge), and after each such sequence
/// every possible call (new edge, repeated pair, reversed pair, self edge, cycle-closing edge) as
/// a probe whose accept/reject result is compared with the reference model.
pub fn run_c16_probe(n: usize, depth: usize, deadline: Instant, total: &mut Stats, log: &mut Vec<Value>) {
    let calls: Vec<(usize, usize)> = (0..n).flat_map(|a| (0..n).map(move |b| (a, b))).collect();
    // reachability as bitmasks, reach[a] = nodes reachable from a (non-empty paths)
    fn add_edge(reach: &mut [u8; 8], n: usize, a: usize, b: usize) {
        let add = (1u8 << b) | reach[b];
        for x in 0..n {
            if x == a || reach[x] >> a & 1 == 1 {
                reach[x] |= add;
            }
        }
    }
    // returns the result of the last call of `seq` and whether all earlier calls were accepted
    fn run_real(n: usize, seq: &[(usize, usize)]) -> Result<(bool, bool), String> {
        catch_quiet(|| {
            let mut b = FnGraphBuilder::new();
            let ids: Vec<FnId> = (0..n).map(|i| b.add_fn(Node::new(i, vec![]))).collect();
            let mut all_ok = true;
            let mut last = true;
            for (k, &(x, y)) in seq.iter().enumerate() {
                let r = b.add_logic_edge(ids[x], ids[y]).is_ok();
                if k + 1 == seq.len() {
                    last = r;
                } else if !r {
                    all_ok = false;
                }
            }
            (last, all_ok)
        })
    }
    let firsts: Vec<Vec<(usize, usize)>> = {
        let mut v = vec![vec![]];
        for &(a, b) in &calls {
            if a != b {
                v.push(vec![(a, b)]);
                for &(c, d) in &calls {
                    if c != d && (c, d) != (a, b) && !(c == b && d == a) {
                        v.push(vec![(a, b), (c, d)]);
                    }
                }
            }
        }
        v
    };
    let t0 = Instant::now();
    let mut st = Stats::default();
    let calls_ref = &calls;
    let capped = par_for(
        firsts.len(),
        deadline,
        Stats::default,
        |i, local: &mut Stats| {
            let pre = &firsts[i];
            // sequences shorter than 2 are only roots of the recursion for themselves
            struct Ctx<'a> {
                n: usize,
                depth: usize,
                calls: &'a [(usize, usize)],
                deadline: Instant,
            }
            fn rec(cx: &Ctx, seq: &mut Vec<(usize, usize)>, present: u64, reach: [u8; 8], extend: bool, local: &mut Stats) {
                if local.execs % 4096 == 0 && Instant::now() > cx.deadline {
                    local.capped = true;
                    return;
                }
                for &(a, b) in cx.calls {
                    let bit = 1u64 << (a * cx.n + b);
                    let is_present = present & bit != 0;
                    let want = is_present || (a != b && reach[b] >> a & 1 == 0);
                    seq.push((a, b));
                    let got = run_real(cx.n, seq);
                    local.execs += 1;
                    local.transitions += 1;
                    match got {
                        Ok((last, all_ok)) => {
                            if last != want || !all_ok {
                                let spec = Spec { n: cx.n, edges: seq.iter().map(|&(x, y)| (x, y, false)).collect(), decl: vec![], redeclare: 0, prov: 0 };
                                bviol(local, 16, &spec, "call_sequence", format!("after {} accepted edges the call {a}->{b} returned {}, reference {} (earlier calls all accepted: {all_ok})", seq.len() - 1, if last { "Ok" } else { "WouldCycle" }, if want { "Ok" } else { "WouldCycle" }));
                            }
                        }
                        Err(m) => {
                            let spec = Spec { n: cx.n, edges: seq.iter().map(|&(x, y)| (x, y, false)).collect(), decl: vec![], redeclare: 0, prov: 0 };
                            bviol(local, 16, &spec, "call_sequence", format!("builder panicked: {m}"));
                        }
                    }
                    if !want {
                        local.count("probes_rejected_by_the_reference", 1);
                    }
                    if extend && want && !is_present && seq.len() < cx.depth {
                        let mut r2 = reach;
                        add_edge(&mut r2, cx.n, a, b);
                        rec(cx, seq, present | bit, r2, true, local);
                    }
                    seq.pop();
                }
            }
            let cx = Ctx { n, depth, calls: calls_ref, deadline };
            let mut reach = [0u8; 8];
            let mut present = 0u64;
            let mut ok = true;
            for &(a, b) in pre {
                if reach[b] >> a & 1 == 1 || present & (1u64 << (a * n + b)) != 0 {
                    ok = false;
                    break;
                }
                add_edge(&mut reach, n, a, b);
                present |= 1u64 << (a * n + b);
            }
            if !ok {
                return;
            }
            let mut seq = pre.clone();
            // prefixes of length 0 and 1 only probe; prefixes of length 2 probe and extend
            rec(&cx, &mut seq, present, reach, pre.len() == 2 || depth <= 2, local);
            if local.samples.is_empty() && pre.len() == 2 && i % 97 == 3 {
                local.samples.push(json!({"n": n, "accepted_prefix": pre, "then": "every call as a probe, every accepted new edge extended"}));
            }
            local.states += 1;
            local.distinct_traces += 1;
            local.nontrivial += 1;
        },
        |l| st.merge(l),
    );
    st.capped |= capped;
    let label = format!("every ordered way to grow a DAG on n={n} functions by up to {depth} accepted logic edges, each state probed with all {} possible calls", calls.len());
    log.push(json!({"space": label, "calls_evaluated": st.execs, "completed": !st.capped, "wall_s": t0.elapsed().as_secs_f64()}));
    eprintln!("  [{label}] evaluated={} viol={} {}{:.1}s", st.execs, st.viol_total, if st.capped { "CAPPED " } else { "" }, t0.elapsed().as_secs_f64());
    total.merge(st);
}

// ---------------------------------------------------------------------------
// per-property drivers

pub fn run_build_props(prop: u8, tier: &str, deadline: Instant, total: &mut Stats, log: &mut Vec<Value>) {
    let thorough = tier == "thorough";
    let bs = |label: &str, n: usize, t: usize, perm_max: usize, kinds_max: usize| BuildSpace { label: label.to_string(), n, t, perm_max, kinds_max };
    match prop {
        11 | 12 | 6 => {
            let props: Vec<u8> = vec![prop];
            let f = move |s: &Spec, st: &mut Stats| {
                check_built(s, &props, st);
                if prop == 12 && s.n <= 3 {
                    check_sensitivity(s, st);
                }
            };
            let mut spaces = vec![
                bs("n=0..2, T=2, all edge orders, all kind assignments", 0, 2, 3, 3),
                bs("n=1", 1, 2, 3, 3),
                bs("n=2", 2, 2, 3, 3),
                bs("n=3, T=2, all edge orders (<=3 edges), all kind assignments", 3, 2, 3, 3),
                bs("n=4, T=1, {given, reversed} edge order, 3 kind assignments", 4, 1, 0, 0),
            ];
            if thorough {
                spaces.push(bs("n=4, T=2", 4, 2, 0, 0));
                spaces.push(bs("n=5, T=1", 5, 1, 0, 0));
                spaces.push(bs("n=3, T=3", 3, 3, 3, 0));
            }
            for sp in &spaces {
                run_build_space(sp, deadline, &f, total, log);
            }
            run_declared_families(tier, deadline, &f, total, log);
            if prop == 11 {
                // "keeps the user's graph" on graphs built through call histories with rejected,
                // repeated, batched and lazily interleaved calls
                set_history_props(&[11]);
                run_call_histories(tier, true, deadline, total, log);
            }
            if prop != 6 {
                let f6 = move |s: &Spec, st: &mut Stats| check_built(s, &[prop], st);
                let alphabet: &[u8] = if thorough { &[0, 1, 2] } else { &[0, 2] };
                run_topo_decl_space(6, alphabet, deadline, &f6, total, log);
            }
        }
        13 => {
            let f = |s: &Spec, st: &mut Stats| check_built(s, &[13], st);
            let mut spaces = vec![
                bs("n=0", 0, 0, 6, 0),
                bs("n=1", 1, 0, 6, 0),
                bs("n=2", 2, 0, 6, 0),
                bs("n=3, every edge insertion permutation", 3, 0, 6, 0),
                bs("n=4, every edge insertion permutation", 4, 0, 6, 0),
                bs("n=5, {given, reversed}", 5, 0, 0, 0),
                bs("n=3, T=1 declarations", 3, 1, 3, 0),
                bs("n=4, T=1 declarations", 4, 1, 0, 0),
            ];
            if thorough {
                spaces.push(bs("n=6, {given, reversed}", 6, 0, 0, 0));
                spaces.push(bs("n=5, every permutation up to 5 edges", 5, 0, 5, 0));
            }
            for sp in &spaces {
                run_build_space(sp, deadline, &f, total, log);
            }
            let mut members = vec![];
            for k in 1..=40 {
                members.push((Family::Chain, k));
                members.push((Family::FanIn, k));
                members.push((Family::FanOut, k));
                members.push((Family::StarRev, k));
                members.push((Family::BinTree, k));
                if k <= 20 {
                    members.push((Family::Bipartite, k));
                    members.push((Family::Complete, k));
                }
                if k <= 13 {
                    members.push((Family::Diamonds, k));
                    members.push((Family::Layered(2), k));
                    members.push((Family::Layered(3), k));
                }
            }
            // protect against a path-exponential rank computation: C18 reports it, here the
            // input is skipped
            let g = |s: &Spec, st: &mut Stats| {
                let n = s.n as u64;
                fn_graph::verif_hooks::rank_pops_reset(16 * (n * n + n) + 64);
                check_built(s, &[13], st);
                fn_graph::verif_hooks::rank_pops_reset(0);
            };
            run_family_space("sparse / dense families up to n=40 (chains, stars, trees, bipartite, complete, layered, diamonds), both insertion orders", members, deadline, &g, total, log);
            run_declared_families(tier, deadline, &f, total, log);
            // graphs built through call histories with rejected, repeated, batched and lazily interleaved calls
            set_history_props(&[13]);
            run_call_histories(tier, true, deadline, total, log);
        }
        14 => {
            let f = |s: &Spec, st: &mut Stats| check_iteration(s, st);
            let mut spaces = vec![bs("n=0", 0, 2, 3, 0), bs("n=1", 1, 2, 3, 0), bs("n=2, T=2", 2, 2, 3, 0), bs("n=3, T=2", 3, 2, 3, 0), bs("n=4, T=1", 4, 1, 0, 0)];
            if thorough {
                spaces.push(bs("n=4, T=2", 4, 2, 0, 0));
                spaces.push(bs("n=5, T=1", 5, 1, 0, 0));
            }
            for sp in &spaces {
                run_build_space(sp, deadline, &f, total, log);
            }
            run_declared_families(tier, deadline, &f, total, log);
            // graphs built through call histories with rejected, repeated, batched and lazily interleaved calls
            set_history_props(&[14]);
            run_call_histories(tier, true, deadline, total, log);
            // histories of sequential calls on one graph value
            let plan: Vec<(usize, usize)> = if thorough { vec![(0, 3), (1, 5), (2, 5), (3, 4), (4, 3), (5, 2)] } else { vec![(0, 3), (1, 4), (2, 4), (3, 4), (4, 2)] };
            for (n, depth) in plan {
                let specs: Vec<Spec> = if n <= 4 { crate::props_run::shapes_upto(n, n, false) } else { crate::graphs::topo_dag_specs(n) };
                let t0 = Instant::now();
                let mut st = Stats::default();
                let specs_ref = &specs;
                let capped = par_for(specs.len(), deadline, Stats::default, |i, local: &mut Stats| check_iteration_histories(&specs_ref[i], depth, local), |l| st.merge(l));
                st.capped |= capped;
                let label = format!("histories: every sequence of <= {depth} sequential calls (iter, iter_rev, map full / taken k, fold, for_each, try_fold / try_for_each ok / failing at every position, an async run) on one graph value, {} shapes on {n} functions", specs.len());
                log.push(json!({"space": label, "histories": st.execs, "completed": !st.capped, "wall_s": t0.elapsed().as_secs_f64()}));
                eprintln!("  [{label}] histories={} viol={} {}{:.1}s", st.execs, st.viol_total, if st.capped { "CAPPED " } else { "" }, t0.elapsed().as_secs_f64());
                total.merge(st);
            }
        }
        17 => {
            let f = |s: &Spec, st: &mut Stats| check_graph_info(s, true, st);
            let mut spaces = vec![bs("n=0", 0, 2, 3, 3), bs("n=1", 1, 2, 3, 3), bs("n=2, T=2, all kinds", 2, 2, 3, 3), bs("n=3, T=2, all kinds, YAML round trip", 3, 2, 3, 3), bs("n=4, T=1, YAML round trip", 4, 1, 0, 0)];
            if thorough {
                spaces.push(bs("n=4, T=2, YAML round trip", 4, 2, 0, 0));
            }
            for sp in &spaces {
                run_build_space(sp, deadline, &f, total, log);
            }
            run_declared_families(tier, deadline, &f, total, log);
            // graphs built through call histories with rejected, repeated, batched and lazily interleaved calls
            set_history_props(&[17]);
            run_call_histories(tier, true, deadline, total, log);
            {
                // graphs extended through DerefMut after build(): GraphInfo mirrors `graph`
                let mut st = Stats::default();
                let specs = crate::props_run::extra_node_specs(4);
                for s in &specs {
                    check_graph_info(s, true, &mut st);
                }
                st.fold_hashes();
                log.push(json!({"space": "all shapes on <= 4 functions with one node and an edge to it added through DerefMut after build()", "inputs": specs.len(), "completed": true}));
                total.merge(st);
            }
            if thorough {
                let f2 = |s: &Spec, st: &mut Stats| check_graph_info(s, false, st);
                run_build_space(&bs("n=5, T=1, structural comparison", 5, 1, 0, 0), deadline, &f2, total, log);
            }
        }
        18 => {
            let f = |s: &Spec, st: &mut Stats| check_pops(s, st);
            let mut spaces = vec![bs("n=0", 0, 0, 0, 0), bs("n=1", 1, 0, 0, 0), bs("n=2", 2, 0, 0, 0), bs("n=3", 3, 0, 3, 0), bs("n=4", 4, 0, 0, 0), bs("n=5", 5, 0, 0, 0)];
            if thorough {
                spaces.push(bs("n=6", 6, 0, 0, 0));
            }
            for sp in &spaces {
                run_build_space(sp, deadline, &f, total, log);
            }
            let mut members = vec![];
            let kmax = if thorough { 96 } else { 64 };
            for k in 1..=kmax {
                members.push((Family::Complete, k));
                if 2 * k <= kmax {
                    members.push((Family::Layered(2), k));
                    members.push((Family::Bipartite, k));
                }
                if 3 * k <= kmax {
                    members.push((Family::Layered(3), k));
                    members.push((Family::Diamonds, k));
                }
                if 4 * k <= kmax {
                    members.push((Family::Layered(4), k));
                }
                members.push((Family::Chain, k));
                members.push((Family::BinTree, k));
                if 2 * k <= kmax {
                    members.push((Family::CompletePlusChain, k));
                }
                if 3 * k <= kmax {
                    members.push((Family::LayeredPlusChain(2), k));
                }
                if 4 * k <= kmax {
                    members.push((Family::LayeredPlusChain(3), k));
                }
            }
            run_family_space(&format!("dense / layered families up to n={kmax} (complete DAG, 2-4 wide layers, diamond chains, bipartite, each also next to an independent chain), both insertion orders"), members, deadline, &f, total, log);
            // the same dense regions with access declarations: the data-edge step searches for
            // paths between conflicting functions and must not walk every path either
            {
                let specs = dense_declared_specs(if thorough { 48 } else { 40 });
                let t0 = Instant::now();
                let mut st = Stats::default();
                let specs_ref = &specs;
                let capped = par_for(
                    specs.len(),
                    deadline,
                    Stats::default,
                    |i, local: &mut Stats| {
                        check_pops(&specs_ref[i], local);
                        local.fold_hashes();
                    },
                    |l| st.merge(l),
                );
                st.capped |= capped;
                let label = format!("{} dense regions (complete DAG, 2-4 wide layers, diamond chains of 8..{} functions) with access declarations: every function writes / mixed pattern / no access except one writer in the region and one reader or writer at either end of an independent chain (no path between the two)", specs.len(), if thorough { 48 } else { 40 });
                log.push(json!({"space": label, "inputs": st.execs, "completed": !st.capped, "wall_s": t0.elapsed().as_secs_f64()}));
                eprintln!("  [{label}] inputs={} viol={} {}{:.1}s", st.execs, st.viol_total, if st.capped { "CAPPED " } else { "" }, t0.elapsed().as_secs_f64());
                total.merge(st);
            }
        }
        _ => unreachable!(),
    }
}

/// Long builder histories: the edge list of a dense DAG in some order, with a probe call inserted
/// after every `every`-th edge (phase `offset`): the reverse of an earlier accepted edge (closes a
/// cycle), a self edge, the same pair again, or the same pair with the other kind.
fn long_call_histories(tier: &str) -> Vec<(usize, Vec<Call>)> {
    let mut out = vec![];
    let ns: &[usize] = if tier == "thorough" { &[24, 30, 40] } else { &[24, 30] };
    for &n in ns {
        let mut bases: Vec<Vec<(usize, usize)>> = vec![];
        let complete: Vec<(usize, usize)> = (0..n).flat_map(|i| (i + 1..n).map(move |j| (i, j))).collect();
        bases.push(complete.clone());
        bases.push(complete.iter().rev().copied().collect());
        let mut by_distance = complete.clone();
        by_distance.sort_by_key(|&(a, b)| (b - a, a));
        bases.push(by_distance);
        let (ln, le) = family(Family::Layered(4), n / 4);
        if ln == n {
            bases.push(le);
        }
        for base in &bases {
            for every in 1..=4usize {
                for offset in 0..every {
                    for probe_kind in 0..2usize {
                        let mut calls: Vec<Call> = vec![];
                        for (k, &(a, b)) in base.iter().enumerate() {
                            calls.push(Call { from: a, to: b, contains: k % 3 == 1 });
                            if (k + offset) % every == 0 {
                                // an earlier accepted edge, far back in the history
                                let (pa, pb) = base[k / 2];
                                let c = match (k / every + probe_kind) % 4 {
                                    0 | 1 => Call { from: pb, to: pa, contains: k % 2 == 0 }, // closes a cycle
                                    2 => Call { from: pa, to: pb, contains: k % 2 == 0 },     // repeated pair, maybe other kind
                                    _ => Call { from: a, to: a, contains: false },            // self edge
                                };
                                calls.push(c);
                            }
                        }
                        out.push((n, calls));
                    }
                }
            }
        }
    }
    out
}

/// Replays a recorded C16 call sequence (the spec's edge list is the call list).
pub fn replay_c16(spec: &Spec, what: &str, st: &mut Stats) {
    let calls: Vec<Call> = spec.edges.iter().map(|&(a, b, c)| Call { from: a, to: b, contains: c }).collect();
    let batch = what.strip_prefix("call_sequence_batch").and_then(|s| s.parse().ok()).unwrap_or(0);
    let mixed = what.strip_prefix("call_sequence_mixed").and_then(|s| s.trim_end_matches("_lazy").parse().ok()).unwrap_or(0);
    c16_eval_mode(spec.n, &calls, batch, what.ends_with("_lazy"), mixed, st);
}
