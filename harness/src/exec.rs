//! Controlled-executor primitives shared by the engines: the choice list, the
//! flag waker, gate futures and the event log.
use std::{
    cell::RefCell,
    future::Future,
    pin::Pin,
    rc::Rc,
    sync::{
        atomic::{AtomicUsize, Ordering},
        Arc,
    },
    task::{Context, Poll, Wake, Waker},
};

use serde::{Deserialize, Serialize};

/// A waker that only sets a flag: the explorer decides when the subject is polled.
pub struct FlagWaker(pub AtomicUsize);

impl Wake for FlagWaker {
    fn wake(self: Arc<Self>) {
        self.0.fetch_add(1, Ordering::SeqCst);
    }

    fn wake_by_ref(self: &Arc<Self>) {
        self.0.fetch_add(1, Ordering::SeqCst);
    }
}

impl FlagWaker {
    pub fn new() -> Arc<Self> {
        Arc::new(FlagWaker(AtomicUsize::new(0)))
    }

    pub fn woken(&self) -> bool {
        self.0.load(Ordering::SeqCst) > 0
    }

    pub fn clear(&self) {
        self.0.store(0, Ordering::SeqCst);
    }
}

#[derive(Clone, Copy, Debug, PartialEq, Eq, Hash, Serialize, Deserialize)]
pub enum Ev {
    /// The user closure was invoked for function i (future APIs).
    Start(u16),
    /// The user future of function i returned Ready.
    End(u16),
    /// The explorer released gate i (it will complete when next polled).
    Release(u16),
    /// The explorer sent the interrupt signal.
    Interrupt,
    /// A user future drove a nested run (kind 1 = for_each_concurrent, 2 = fold_async, 3 = stream, 4 = for_each_concurrent with functions that stay pending for two polls, 5 = try_for_each_concurrent)
    /// on the same graph to its end from inside its own first poll.
    Nested(u16),
    /// User future i returned Pending after waking itself (yield_now-like): it is polled again
    /// although nothing completed it.
    SelfWake(u16),
    /// A user future sent the interrupt signal itself while the call was being polled (at its
    /// first poll or in the poll in which it completes).
    InterruptMid,
    /// The subject is polled. `spurious` = although no wake-up was signalled.
    Poll { spurious: bool },
    /// The poll returned Pending; `woken` = a wake-up was signalled during the poll.
    Pending { woken: bool },
    /// The poll of a future returned Ready.
    Ready,
    /// Stream: item yielded (NoInterrupt / plain stream).
    Yield(u16),
    /// Stream: Interrupted(Some(i)) item yielded.
    YieldInterrupted(u16),
    /// Stream: Interrupted(None) item yielded.
    InterruptedNone,
    /// Stream returned None.
    StreamEnd,
    /// Consumer dropped the FnRef of function i.
    Drop(u16),
    /// Consumer dropped the stream / the future was dropped (abort).
    DropSubject,
    /// The forced budget for the next poll (tokio cooperative budget), None = unconstrained.
    Budget(u16),
}

/// Why a choice point exists; used for deviation accounting and readable replays.
#[derive(Clone, Copy, Debug, PartialEq, Eq, Serialize, Deserialize)]
pub struct Taken {
    pub c: u16,
    pub k: u16,
    /// The default (base schedule) answer at this point.
    pub d: u16,
}

/// The list of environment answers. A run is a pure function of
/// (configuration, prefix): positions beyond the prefix take the default.
pub struct Chooser {
    pub prefix: Vec<u16>,
    pub taken: Vec<Taken>,
    /// Set when the prefix asked for an alternative that does not exist: the
    /// replay diverged (machinery error, never a verdict).
    pub diverged: bool,
}

pub type ChooserRef = Rc<RefCell<Chooser>>;

impl Chooser {
    pub fn new(prefix: Vec<u16>) -> Self {
        Chooser { prefix, taken: Vec::with_capacity(32), diverged: false }
    }

    pub fn shared(prefix: Vec<u16>) -> ChooserRef {
        Rc::new(RefCell::new(Chooser::new(prefix)))
    }

    /// Picks one of `k >= 1` alternatives; `default` is the base schedule's answer.
    pub fn choose(&mut self, k: usize, default: usize) -> usize {
        assert!(k >= 1 && k <= u16::MAX as usize && default < k);
        let pos = self.taken.len();
        let c = if pos < self.prefix.len() {
            let c = self.prefix[pos] as usize;
            if c >= k {
                self.diverged = true;
                default
            } else {
                c
            }
        } else {
            default
        };
        self.taken.push(Taken { c: c as u16, k: k as u16, d: default as u16 });
        c
    }
}

/// Number of non-default answers in a choice log.
pub fn deviations(t: &[Taken]) -> usize {
    t.iter().filter(|t| t.c != t.d).count()
}

/// State shared between the explorer and the user closures / gates of one run.
pub struct Shared {
    pub n: usize,
    pub ev: Vec<Ev>,
    pub started: Vec<u8>,
    pub released: Vec<bool>,
    pub ended: Vec<bool>,
    pub first_polled: Vec<bool>,
    pub wakers: Vec<Option<Waker>>,
    pub fail: Vec<bool>,
    /// The (possibly shared) global choice list.
    pub ch: ChooserRef,
    /// This run's own choices, in order (its projection of the global list).
    pub local: Vec<Taken>,
    /// Offer "ready on first poll" as a choice at each gate's first poll.
    pub imm_choice: bool,
    /// Base schedule: every gate is ready on its first poll.
    pub imm_default: bool,
    /// Sends the interrupt signal from inside a user future (mid-poll signals); None = not offered.
    pub mid_int: Option<Box<dyn Fn()>>,
    /// The signal was sent (by the explorer between polls or by a user future).
    pub int_sent: bool,
    /// Drives a complete nested run of the given kind on the same graph (set for `&self` APIs).
    pub nested: Option<Box<dyn Fn(usize) -> NestedRun>>,
    pub nested_left: u8,
    pub nested_runs: Vec<NestedRun>,
    /// How many more times a user future may wake itself and return Pending (inside-poll
    /// behaviour of the caller's code; 0 = not offered).
    pub selfwake_left: u8,
    /// How many more times a completing user future may complete a sibling from inside its own
    /// poll (0 = not offered).
    pub sibling_left: u8,
}

pub type Sh = Rc<RefCell<Shared>>;

impl Shared {
    pub fn choose(&mut self, k: usize, default: usize) -> usize {
        let c = self.ch.borrow_mut().choose(k, default);
        self.local.push(Taken { c: c as u16, k: k as u16, d: default as u16 });
        c
    }

    /// Length of the global choice log.
    pub fn ch_len(&self) -> usize {
        self.ch.borrow().taken.len()
    }

    pub fn new(n: usize, fail: Vec<bool>, ch: ChooserRef, imm_choice: bool, imm_default: bool) -> Sh {
        Rc::new(RefCell::new(Shared {
            n,
            ev: Vec::with_capacity(64),
            started: vec![0; n],
            released: vec![false; n],
            ended: vec![false; n],
            first_polled: vec![false; n],
            wakers: vec![None; n],
            fail,
            ch,
            local: Vec::with_capacity(32),
            imm_choice,
            imm_default,
            mid_int: None,
            int_sent: false,
            nested: None,
            nested_left: 0,
            nested_runs: vec![],
            selfwake_left: 0,
            sibling_left: 0,
        }))
    }
}

/// A run on the same graph started and driven to its end by a user future of the outer run.
#[derive(Clone, Debug, PartialEq, Eq, Serialize, Deserialize)]
pub struct NestedRun {
    pub kind: u8,
    /// Events of the nested run in order: +(i+1) = function i handed out, -(i+1) = its future
    /// returned (kinds 1-3: at once; kind 4: after two self-woken Pendings).
    pub order: Vec<i32>,
    /// The nested call returned (the stream ended) within its poll horizon.
    pub completed: bool,
}

/// The user future handed to the library: completes only when the explorer
/// released it (or chose "ready now" at its first poll).
pub struct Gate {
    id: usize,
    sh: Sh,
}

impl Future for Gate {
    /// true = success, false = this function fails.
    type Output = bool;

    fn poll(self: Pin<&mut Self>, cx: &mut Context<'_>) -> Poll<bool> {
        let mut s = self.sh.borrow_mut();
        let id = self.id;
        let first = !s.first_polled[id];
        // a function may run the same graph again (`&self` methods) from inside its own poll
        if first && s.nested.is_some() && s.nested_left > 0 {
            let c = s.choose(6, 0);
            if c > 0 {
                s.nested_left -= 1;
                s.ev.push(Ev::Nested(c as u16));
                let f = s.nested.take().expect("checked");
                drop(s);
                let r = f(c);
                s = self.sh.borrow_mut();
                s.nested = Some(f);
                s.nested_runs.push(r);
            }
        }
        if first {
            s.first_polled[id] = true;
            if s.imm_choice {
                let d = s.imm_default as usize;
                if s.choose(2, d) == 1 {
                    s.released[id] = true;
                }
            } else if s.imm_default {
                s.released[id] = true;
            }
        }
        // a function may send the signal itself: when it first runs, or just before it returns
        if s.mid_int.is_some() && !s.int_sent && (first || s.released[id]) && s.choose(2, 0) == 1 {
            s.int_sent = true;
            s.ev.push(Ev::InterruptMid);
            (s.mid_int.as_ref().expect("checked"))();
        }
        // a function that yields: wakes itself and returns Pending, so the library must poll it
        // again although nobody completed it (1: it then waits to be completed from outside;
        // 2: it finishes by itself at that next poll, like `yield_now().await` - if the wake-up is
        // lost nothing else will ever complete it)
        if first && !s.released[id] && s.selfwake_left > 0 {
            let c = s.choose(3, 0);
            if c > 0 {
                s.selfwake_left -= 1;
                s.ev.push(Ev::SelfWake(id as u16));
                if c == 2 {
                    s.released[id] = true;
                    s.ev.push(Ev::Release(id as u16));
                } else {
                    s.wakers[id] = Some(cx.waker().clone());
                }
                drop(s);
                cx.waker().wake_by_ref();
                return Poll::Pending;
            }
        }
        if s.released[id] {
            // a completing function may complete a sibling from inside its own poll (user futures
            // that talk to each other): several functions end within one poll of the call
            let mut sibling_waker = None;
            if s.sibling_left > 0 {
                let cands: Vec<usize> = (0..s.n).filter(|&j| j != id && s.started[j] > 0 && !s.released[j]).collect();
                if !cands.is_empty() {
                    let c = s.choose(cands.len() + 1, 0);
                    if c > 0 {
                        let j = cands[c - 1];
                        s.sibling_left -= 1;
                        s.released[j] = true;
                        s.ev.push(Ev::Release(j as u16));
                        sibling_waker = s.wakers[j].take();
                    }
                }
            }
            s.ended[id] = true;
            s.ev.push(Ev::End(id as u16));
            let r = !s.fail[id];
            drop(s);
            if let Some(w) = sibling_waker {
                w.wake();
            }
            Poll::Ready(r)
        } else {
            s.wakers[id] = Some(cx.waker().clone());
            Poll::Pending
        }
    }
}

/// Called from the user closure: records the hand-out and returns the gate.
pub fn start(sh: &Sh, id: usize) -> Gate {
    let mut s = sh.borrow_mut();
    s.started[id] = s.started[id].saturating_add(1);
    s.ev.push(Ev::Start(id as u16));
    Gate { id, sh: sh.clone() }
}

// ---------------------------------------------------------------------------
// quiet panics: a panic inside the subject is an observation, not a crash.

thread_local! {
    static QUIET: std::cell::Cell<bool> = const { std::cell::Cell::new(false) };
    static LAST_PANIC: RefCell<Option<String>> = const { RefCell::new(None) };
}

pub fn install_panic_hook() {
    let prev = std::panic::take_hook();
    std::panic::set_hook(Box::new(move |info| {
        if QUIET.with(|q| q.get()) {
            let msg = if let Some(s) = info.payload().downcast_ref::<&str>() {
                s.to_string()
            } else if let Some(s) = info.payload().downcast_ref::<String>() {
                s.clone()
            } else {
                "<non-string panic payload>".to_string()
            };
            let loc = info.location().map(|l| format!(" at {}:{}", l.file(), l.line())).unwrap_or_default();
            LAST_PANIC.with(|p| *p.borrow_mut() = Some(format!("{msg}{loc}")));
        } else {
            prev(info);
        }
    }));
}

/// Runs `f`, turning a panic into `Err(message)`.
pub fn catch_quiet<R>(f: impl FnOnce() -> R) -> Result<R, String> {
    let was = QUIET.with(|q| q.replace(true));
    let r = std::panic::catch_unwind(std::panic::AssertUnwindSafe(f));
    QUIET.with(|q| q.set(was));
    r.map_err(|_| LAST_PANIC.with(|p| p.borrow_mut().take()).unwrap_or_else(|| "panic".into()))
}
