//! Graph specifications, exhaustive enumeration of labelled DAGs, parameterised
//! families and small graph algorithms used by the reference models.
use std::sync::{Arc, Mutex, OnceLock};

use fn_graph::{Edge, FnGraph, FnGraphBuilder};
use serde::{Deserialize, Serialize};

use crate::node::Node;

/// One input to `FnGraphBuilder`: `n` functions added in index order, then the
/// edges in the listed order (`true` = contains edge, `false` = logic edge),
/// with per-function access declarations.
#[derive(Clone, Debug, PartialEq, Eq, Serialize, Deserialize, Hash)]
pub struct Spec {
    pub n: usize,
    /// (from, to, is_contains)
    pub edges: Vec<(usize, usize, bool)>,
    /// Per function, per data type: 0 none, 1 read, 2 write. Empty = no access.
    pub decl: Vec<Vec<u8>>,
    /// 0: every edge is declared once. 1 / 2: after all edges, every edge is declared a second
    /// time through the batch form `add_*_edges([(a, b)])`, with the same (1) or the other (2)
    /// kind. 3: every edge is given twice in a row (single-call form, same kind). 4: after all
    /// edges, every edge is given with the other kind and then once more with the listed kind.
    /// The dependency relation is the same in all cases; for 0, 1, 3, 4 so are the kinds.
    #[serde(default)]
    pub redeclare: u8,
    /// How the graph value handed to the checks was obtained. 0: straight from `build()`;
    /// 1: a clone of the built graph (the original dropped); 2: built on another OS thread and
    /// moved here; 3: `DerefMut::deref_mut` called on it once (nothing changed through it);
    /// 4 / 5 (n = 0 only): `FnGraph::new()` / `FnGraph::default()` instead of a builder;
    /// 6: one extra node and an edge to it added through `DerefMut` after `build()`.
    #[serde(default)]
    pub prov: u8,
}

impl Spec {
    pub fn plain(n: usize, edges: &[(usize, usize)]) -> Spec {
        Spec {
            n,
            edges: edges.iter().enumerate().map(|(k, &(a, b))| (a, b, k % 2 == 1)).collect(),
            decl: vec![],
            redeclare: 0,
            prov: 0,
        }
    }

    /// The kind the built graph must carry for a user edge listed with `contains`.
    pub fn final_contains(&self, contains: bool) -> bool {
        if self.redeclare == 2 {
            !contains
        } else {
            contains
        }
    }

    pub fn acc(&self, i: usize) -> &[u8] {
        self.decl.get(i).map(|v| v.as_slice()).unwrap_or(&[])
    }

    pub fn user_edges(&self) -> Vec<(usize, usize)> {
        self.edges.iter().map(|&(a, b, _)| (a, b)).collect()
    }

    pub fn has_decl(&self) -> bool {
        self.decl.iter().any(|d| d.iter().any(|a| *a != 0))
    }

    pub fn short(&self) -> String {
        let e: Vec<String> = self
            .edges
            .iter()
            .map(|&(a, b, c)| format!("{a}{}{b}", if c { "=>" } else { "->" }))
            .collect();
        let d: Vec<String> = self
            .decl
            .iter()
            .map(|d| d.iter().map(|a| ["-", "R", "W"][*a as usize]).collect::<String>())
            .collect();
        format!(
            "n={} edges=[{}] decl=[{}]{}{}",
            self.n,
            e.join(","),
            d.join(","),
            match self.redeclare {
                0 => "",
                1 => " (every edge declared again through the batch form)",
                2 => " (every edge declared again through the batch form with the other kind)",
                3 => " (every edge given twice in a row)",
                _ => " (every edge given again with the other kind and then again with the listed kind)",
            },
            match self.prov {
                0 => "",
                1 => " (a clone of the built graph)",
                2 => " (built on another thread and moved)",
                3 => " (deref_mut() called once)",
                4 => " (FnGraph::new())",
                6 => " (one node and an edge to it added through DerefMut after build())",
                _ => " (FnGraph::default())",
            }
        )
    }
}

/// Builds the real graph through the public API only, with the provenance the spec asks for.
pub fn build(spec: &Spec) -> FnGraph<Node> {
    match spec.prov {
        0 => build_plain(spec),
        1 => {
            let g = build_plain(spec);
            let c = g.clone();
            drop(g);
            c
        }
        2 => {
            let s2 = spec.clone();
            std::thread::scope(|sc| sc.spawn(move || crate::exec::catch_quiet(|| build_plain(&s2))).join().expect("builder thread")).unwrap_or_else(|m| panic!("{m}"))
        }
        3 => {
            let mut g = build_plain(spec);
            let _ = std::ops::DerefMut::deref_mut(&mut g);
            g
        }
        6 => {
            // one more node (and an edge to it) added to the public `graph` through DerefMut after
            // build(): not known to the scheduling structure, so the streaming methods go on
            // handling the `n` built functions; `GraphInfo::from_graph` mirrors `graph`
            let mut g = build_plain(spec);
            let extra = g.add_node(Node::new(spec.n, vec![]));
            if spec.n > 0 {
                let _ = g.add_edge(fn_graph::FnId::new(0), extra, Edge::Logic);
            }
            g
        }
        4 if spec.n == 0 => FnGraph::new(),
        5 if spec.n == 0 => FnGraph::default(),
        _ => build_plain(spec),
    }
}

fn build_plain(spec: &Spec) -> FnGraph<Node> {
    build_plain_ids(spec).0
}

/// The builder calls the spec stands for (incl. `redeclare`); also returns what `add_fn` returned.
pub fn build_plain_ids(spec: &Spec) -> (FnGraph<Node>, Vec<usize>) {
    let mut b = FnGraphBuilder::new();
    let ids: Vec<_> = (0..spec.n)
        .map(|i| b.add_fn(Node::new(i, spec.acc(i).to_vec())))
        .collect();
    for &(x, y, contains) in &spec.edges {
        // redeclare 3: every edge is given twice in a row through the single-call form
        for _ in 0..if spec.redeclare == 3 { 2 } else { 1 } {
            let r = if contains { b.add_contains_edge(ids[x], ids[y]) } else { b.add_logic_edge(ids[x], ids[y]) };
            r.expect("spec edges are acyclic");
        }
    }
    if spec.redeclare == 1 || spec.redeclare == 2 {
        for &(x, y, contains) in &spec.edges {
            let c = if spec.redeclare == 2 { !contains } else { contains };
            let _ = if c { b.add_contains_edges([(ids[x], ids[y])]).map(|_| ()) } else { b.add_logic_edges([(ids[x], ids[y])]).map(|_| ()) };
        }
    }
    if spec.redeclare == 4 {
        // the other kind first, through the single-call form, then the listed kind again: the
        // built graph must carry the listed kinds (last one wins)
        for pass in 0..2 {
            for &(x, y, contains) in &spec.edges {
                let c = if pass == 0 { !contains } else { contains };
                let _ = if c { b.add_contains_edge(ids[x], ids[y]).map(|_| ()) } else { b.add_logic_edge(ids[x], ids[y]).map(|_| ()) };
            }
        }
    }
    let idx = ids.iter().map(|i| i.index()).collect();
    (b.build(), idx)
}

/// Raw edges of the built graph as (from, to, kind).
pub fn raw_edges(g: &FnGraph<Node>) -> Vec<(usize, usize, Edge)> {
    g.graph
        .raw_edges()
        .iter()
        .map(|e| (e.source().index(), e.target().index(), e.weight))
        .collect()
}

// ---------------------------------------------------------------------------
// reachability with bitmasks (n <= 64)

/// reach[i] = bitmask of nodes reachable from i by a non-empty path.
pub fn closure(n: usize, edges: &[(usize, usize)]) -> Vec<u64> {
    let mut r = vec![0u64; n];
    for &(a, b) in edges {
        r[a] |= 1 << b;
    }
    for k in 0..n {
        for i in 0..n {
            if r[i] >> k & 1 == 1 {
                r[i] |= r[k];
            }
        }
    }
    r
}

/// Longest-path rank by repeated relaxation (deliberately boring).
pub fn longest_rank(n: usize, edges: &[(usize, usize)]) -> Vec<usize> {
    let mut rank = vec![0usize; n];
    for _ in 0..n {
        let mut changed = false;
        for &(a, b) in edges {
            if rank[b] < rank[a] + 1 {
                rank[b] = rank[a] + 1;
                changed = true;
            }
        }
        if !changed {
            break;
        }
    }
    rank
}

// ---------------------------------------------------------------------------
// exhaustive labelled DAG enumeration

/// All labelled DAGs on `n` nodes as bitmasks over `pairs` (ordered pairs a != b).
pub struct DagSet {
    pub n: usize,
    pub pairs: Vec<(usize, usize)>,
    pub masks: Vec<u32>,
}

impl DagSet {
    pub fn len(&self) -> usize {
        self.masks.len()
    }

    pub fn edges(&self, idx: usize) -> Vec<(usize, usize)> {
        let m = self.masks[idx];
        self.pairs
            .iter()
            .enumerate()
            .filter(|(i, _)| m >> i & 1 == 1)
            .map(|(_, p)| *p)
            .collect()
    }
}

fn gen_dags(n: usize) -> DagSet {
    let pairs: Vec<(usize, usize)> = (0..n)
        .flat_map(|a| (0..n).filter(move |&b| a != b).map(move |b| (a, b)))
        .collect();
    assert!(pairs.len() <= 30, "DAG enumeration supports n <= 6");
    let mut masks = Vec::new();
    // DFS over pairs keeping the reachability relation; an edge (a, b) may be added
    // iff b does not already reach a.
    fn rec(i: usize, pairs: &[(usize, usize)], n: usize, reach: &mut [u8; 8], mask: u32, out: &mut Vec<u32>) {
        if i == pairs.len() {
            out.push(mask);
            return;
        }
        // without the edge
        rec(i + 1, pairs, n, reach, mask, out);
        let (a, b) = pairs[i];
        if reach[b] >> a & 1 == 0 {
            let saved = *reach;
            // everything that reaches a (or is a) now reaches b and everything b reaches
            let add = (1u8 << b) | reach[b];
            for x in 0..n {
                if x == a || reach[x] >> a & 1 == 1 {
                    reach[x] |= add;
                }
            }
            rec(i + 1, pairs, n, reach, mask | 1 << i, out);
            *reach = saved;
        }
    }
    let mut reach = [0u8; 8];
    rec(0, &pairs, n, &mut reach, 0, &mut masks);
    masks.sort_unstable_by_key(|m| (m.count_ones(), *m));
    DagSet { n, pairs, masks }
}

/// Cached DAG sets (n <= 6). Known counts: 1, 1, 3, 25, 543, 29281, 3781503.
pub fn dags(n: usize) -> Arc<DagSet> {
    static CACHE: OnceLock<Mutex<Vec<Option<Arc<DagSet>>>>> = OnceLock::new();
    let c = CACHE.get_or_init(|| Mutex::new(vec![None; 7]));
    let mut c = c.lock().unwrap();
    if c[n].is_none() {
        let s = gen_dags(n);
        let want = [1usize, 1, 3, 25, 543, 29281, 3781503][n];
        assert_eq!(s.len(), want, "labelled DAG count for n={n}");
        c[n] = Some(Arc::new(s));
    }
    c[n].clone().unwrap()
}

/// All permutations of 0..k (k small).
pub fn permutations(k: usize) -> Vec<Vec<usize>> {
    fn rec(cur: &mut Vec<usize>, used: &mut Vec<bool>, k: usize, out: &mut Vec<Vec<usize>>) {
        if cur.len() == k {
            out.push(cur.clone());
            return;
        }
        for i in 0..k {
            if !used[i] {
                used[i] = true;
                cur.push(i);
                rec(cur, used, k, out);
                cur.pop();
                used[i] = false;
            }
        }
    }
    let mut out = vec![];
    rec(&mut vec![], &mut vec![false; k], k, &mut out);
    out
}

/// Edge insertion orders explored for a shape: every permutation for <= `perm_max`
/// edges, {given, reversed} beyond.
pub fn edge_orders(edges: &[(usize, usize)], perm_max: usize) -> Vec<Vec<(usize, usize)>> {
    if edges.len() <= 1 {
        return vec![edges.to_vec()];
    }
    if edges.len() <= perm_max {
        permutations(edges.len())
            .into_iter()
            .map(|p| p.into_iter().map(|i| edges[i]).collect())
            .collect()
    } else {
        let mut r = edges.to_vec();
        r.reverse();
        vec![edges.to_vec(), r]
    }
}

/// All declarations for n functions over t types: 3^(n t) values.
pub fn decl_count(n: usize, t: usize) -> usize {
    3usize.pow((n * t) as u32)
}

pub fn decl_decode(n: usize, t: usize, mut code: usize) -> Vec<Vec<u8>> {
    (0..n)
        .map(|_| {
            (0..t)
                .map(|_| {
                    let v = (code % 3) as u8;
                    code /= 3;
                    v
                })
                .collect()
        })
        .collect()
}

// ---------------------------------------------------------------------------
// parameterised families

#[derive(Clone, Copy, Debug, PartialEq, Eq, Serialize, Deserialize, Hash)]
pub enum Family {
    Antichain,
    FanIn,
    FanOut,
    Bipartite,
    Chain,
    /// complete DAG: i -> j for all i < j
    Complete,
    /// `w` nodes per layer, every node of layer l -> every node of layer l+1
    Layered(usize),
    /// chain of diamonds: a -> {b, c} -> d -> {e, f} -> g ...
    Diamonds,
    /// binary in-tree / out-tree
    BinTree,
    /// star with centre last in insertion order (edges point to lower indices too)
    StarRev,
    /// two fans of different depth: p1 -> c1..ck ; p2 -> m -> d1..dk (inserted p2, m, p1, c.., d..)
    FanPair,
    /// comb: spine s0 -> s1 -> ... -> sk, every spine node with a pendant leaf
    Comb,
    /// two fans of different depth: p1 -> c1..ck ; p2 -> m1 -> m2 -> d1..d(k+2)
    DeepFanPair,
    /// k roots r0..r(k-1) -> s, and r0 -> l1..l(k-1)
    FanInOut,
    /// complete DAG on k nodes next to an independent chain of k nodes
    CompletePlusChain,
    /// w-wide layered graph with k layers next to an independent chain of k nodes
    LayeredPlusChain(usize),
}

/// Returns (n, edges) of the family member with parameter k.
pub fn family(f: Family, k: usize) -> (usize, Vec<(usize, usize)>) {
    match f {
        Family::Antichain => (k, vec![]),
        Family::FanIn => (k + 1, (0..k).map(|i| (i, k)).collect()),
        Family::FanOut => (k + 1, (1..=k).map(|i| (0, i)).collect()),
        Family::Bipartite => (
            2 * k,
            (0..k).flat_map(|i| (k..2 * k).map(move |j| (i, j))).collect(),
        ),
        Family::Chain => (k, (1..k).map(|i| (i - 1, i)).collect()),
        Family::Complete => (
            k,
            (0..k).flat_map(|i| (i + 1..k).map(move |j| (i, j))).collect(),
        ),
        Family::Layered(w) => {
            let layers = k;
            let n = w * layers;
            let mut e = vec![];
            for l in 1..layers {
                for a in 0..w {
                    for b in 0..w {
                        e.push(((l - 1) * w + a, l * w + b));
                    }
                }
            }
            (n, e)
        }
        Family::Diamonds => {
            // k diamonds: nodes 0..=3k
            let n = 3 * k + 1;
            let mut e = vec![];
            for d in 0..k {
                let a = 3 * d;
                e.push((a, a + 1));
                e.push((a, a + 2));
                e.push((a + 1, a + 3));
                e.push((a + 2, a + 3));
            }
            (n, e)
        }
        Family::BinTree => {
            let n = k;
            let e = (1..n).map(|i| ((i - 1) / 2, i)).collect();
            (n, e)
        }
        Family::StarRev => {
            // centre is node k (last); leaves 0..k depend on it: k -> i
            (k + 1, (0..k).map(|i| (k, i)).collect())
        }
        Family::FanPair => {
            // 0 = p2, 1 = m, 2 = p1, 3..3+k = c, 3+k..3+2k = d
            let mut e = vec![(0, 1)];
            for i in 0..k {
                e.push((2, 3 + i));
                e.push((1, 3 + k + i));
            }
            (3 + 2 * k, e)
        }
        Family::DeepFanPair => {
            // 0 = p2, 1 = m1, 2 = m2, 3 = p1, 4..4+k = c, 4+k..4+2k+2 = d
            let mut e = vec![(0, 1), (1, 2)];
            for i in 0..k {
                e.push((3, 4 + i));
            }
            for i in 0..k + 2 {
                e.push((2, 4 + k + i));
            }
            (2 * k + 6, e)
        }
        Family::FanInOut => {
            // roots 0..k, sink k, leaves k+1..2k
            let mut e: Vec<(usize, usize)> = (0..k).map(|i| (i, k)).collect();
            for i in 1..k {
                e.push((0, k + i));
            }
            (2 * k, e)
        }
        Family::CompletePlusChain => {
            let mut e: Vec<(usize, usize)> = (0..k).flat_map(|i| (i + 1..k).map(move |j| (i, j))).collect();
            e.extend((1..k).map(|i| (k + i - 1, k + i)));
            (2 * k, e)
        }
        Family::LayeredPlusChain(w) => {
            let (n0, mut e) = family(Family::Layered(w), k);
            e.extend((1..k).map(|i| (n0 + i - 1, n0 + i)));
            (n0 + k, e)
        }
        Family::Comb => {
            // spine 0..=k, leaf of spine node i is k+1+i
            let mut e = vec![];
            for i in 0..=k {
                if i < k {
                    e.push((i, i + 1));
                }
                e.push((i, k + 1 + i));
            }
            (2 * k + 2, e)
        }
    }
}

pub fn family_spec(f: Family, k: usize) -> Spec {
    let (n, e) = family(f, k);
    Spec::plain(n, &e)
}

/// Every DAG on n nodes whose labels are a topological order (edge subsets of {i -> j : i < j}):
/// 2^(n(n-1)/2) shapes covering every isomorphism class. Odd-numbered shapes are relabelled
/// i -> n-1-i so that insertion order is the reverse of a topological order.
pub fn topo_dag_specs(n: usize) -> Vec<Spec> {
    let pairs: Vec<(usize, usize)> = (0..n).flat_map(|a| (a + 1..n).map(move |b| (a, b))).collect();
    assert!(pairs.len() <= 24);
    (0u32..1 << pairs.len())
        .map(|mask| {
            let flip = mask % 2 == 1;
            let e: Vec<(usize, usize)> = pairs
                .iter()
                .enumerate()
                .filter(|(i, _)| mask >> i & 1 == 1)
                .map(|(_, &(a, b))| if flip { (n - 1 - a, n - 1 - b) } else { (a, b) })
                .collect();
            Spec::plain(n, &e)
        })
        .collect()
}

/// A maximum antichain of the DAG (Dilworth / Koenig): a largest set of functions no two of which
/// are ordered. These are the functions that can all be in flight (or held) at the same time.
pub fn max_antichain(n: usize, edges: &[(usize, usize)]) -> Vec<bool> {
    use crate::mask::{closure_m, BigMask, Mask};
    let reach: Vec<BigMask> = closure_m(n, edges);
    let adj: Vec<Vec<usize>> = (0..n).map(|i| reach[i].list()).collect();
    // maximum bipartite matching L(i) - R(j) for i reaches j
    let mut match_r: Vec<Option<usize>> = vec![None; n];
    let mut match_l: Vec<Option<usize>> = vec![None; n];
    fn try_aug(u: usize, adj: &[Vec<usize>], seen: &mut [bool], match_r: &mut [Option<usize>], match_l: &mut [Option<usize>]) -> bool {
        for &v in &adj[u] {
            if seen[v] {
                continue;
            }
            seen[v] = true;
            if match_r[v].is_none() || try_aug(match_r[v].unwrap(), adj, seen, match_r, match_l) {
                match_r[v] = Some(u);
                match_l[u] = Some(v);
                return true;
            }
        }
        false
    }
    for u in 0..n {
        let mut seen = vec![false; n];
        try_aug(u, &adj, &mut seen, &mut match_r, &mut match_l);
    }
    // Koenig: Z = vertices reachable by alternating paths from unmatched left vertices
    let mut zl = vec![false; n];
    let mut zr = vec![false; n];
    let mut stack: Vec<usize> = (0..n).filter(|&u| match_l[u].is_none()).collect();
    for &u in &stack {
        zl[u] = true;
    }
    while let Some(u) = stack.pop() {
        for &v in &adj[u] {
            if !zr[v] {
                zr[v] = true;
                if let Some(w) = match_r[v] {
                    if !zl[w] {
                        zl[w] = true;
                        stack.push(w);
                    }
                }
            }
        }
    }
    // minimum vertex cover = (L \ Z) + (R & Z); antichain = vertices with neither copy in the cover
    let a: Vec<bool> = (0..n).map(|i| zl[i] && !zr[i]).collect();
    debug_assert!({
        let idx: Vec<usize> = (0..n).filter(|&i| a[i]).collect();
        idx.iter().all(|&i| idx.iter().all(|&j| !reach[i].get(j)))
    });
    a
}
