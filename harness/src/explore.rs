//! Stateless exhaustive DFS over choice lists, parallel job driver, statistics,
//! violation records, determinism self-checks.
use std::{
    collections::{BTreeMap, HashSet},
    hash::{Hash, Hasher},
    sync::{
        atomic::{AtomicBool, AtomicUsize, Ordering},
        Mutex,
    },
    time::{Duration, Instant},
};

use serde_json::{json, Value};

use crate::{
    engine_c::{run_c, CCfg, CRes},
    engine_s::{run_on, RunCfg, RunRes},
    exec::{Ev, Taken},
    graphs::{build, Spec},
    mask::{BigMask, Mask},
    oracle::{analyze_c, analyze_s, CFacts, Facts, Info, Viol},
};

pub fn hash64<T: Hash>(t: &T) -> u64 {
    // DefaultHasher::new() uses fixed keys: hashes are comparable across processes.
    let mut h = std::collections::hash_map::DefaultHasher::new();
    t.hash(&mut h);
    h.finish()
}

#[derive(Clone, Debug)]
pub enum JobCfg {
    S(RunCfg),
    C(CCfg),
    /// Engine B: which builder-side check produced the record.
    B(String),
    /// Histories / simultaneous runs: free-form description plus machine-readable detail.
    H(String, Value),
}

impl JobCfg {
    pub fn short(&self) -> String {
        match self {
            JobCfg::S(c) => c.short(),
            JobCfg::C(c) => c.short(),
            JobCfg::B(w) => format!("builder check {w}"),
            JobCfg::H(w, _) => w.clone(),
        }
    }

    pub fn to_json(&self) -> Value {
        match self {
            JobCfg::S(c) => json!({"engine": "S", "cfg": c}),
            JobCfg::C(c) => json!({"engine": "C", "cfg": c}),
            JobCfg::B(w) => json!({"engine": "B", "check": w}),
            JobCfg::H(w, d) => json!({"engine": "H", "what": w, "detail": d}),
        }
    }
}

#[derive(Clone, Debug)]
pub struct ViolRec {
    pub prop: u8,
    pub msg: String,
    pub spec: Spec,
    pub cfg: JobCfg,
    pub choices: Vec<u16>,
    pub trace: Vec<Ev>,
    pub result: String,
}

impl ViolRec {
    /// Key used for de-duplication and for matching known findings.
    pub fn key(&self) -> String {
        format!("C{:02}|{}|{}|{}", self.prop, self.cfg.short(), self.spec.short(), self.msg)
    }

    pub fn class(&self) -> String {
        let api = match &self.cfg {
            JobCfg::S(c) => c.api.name(),
            JobCfg::C(c) => c.api.name().to_string(),
            JobCfg::B(w) => w.clone(),
            JobCfg::H(w, _) => w.split(' ').take(3).collect::<Vec<_>>().join(" "),
        };
        let words: Vec<&str> = self.msg.split(' ').filter(|w| !w.chars().any(|c| c.is_ascii_digit())).take(4).collect();
        format!("C{:02}|{}|{}", self.prop, api, words.join(" "))
    }
}

#[derive(Default)]
pub struct Stats {
    pub jobs: u64,
    pub execs: u64,
    pub transitions: u64,
    pub states: u64,
    pub distinct_traces: u64,
    pub nontrivial: u64,
    pub max_polls: u64,
    pub max_depth: u64,
    pub max_deviations: u64,
    pub recheck: u64,
    pub counters: BTreeMap<String, u64>,
    pub viols: Vec<ViolRec>,
    pub viol_classes: BTreeMap<String, u64>,
    pub viol_total: u64,
    pub samples: Vec<Value>,
    pub machinery_errors: Vec<String>,
    pub capped: bool,
    /// Engine B scratch: distinct states / non-trivial cases of the current work item.
    pub state_hashes: HashSet<u64>,
    pub nontrivial_hashes: HashSet<u64>,
}

impl Stats {
    /// Adds the sizes of the scratch sets to the counters and clears them. Work items are
    /// disjoint by construction (different shapes), so the sum is the number of distinct cases.
    pub fn fold_hashes(&mut self) {
        self.states += self.state_hashes.len() as u64;
        self.distinct_traces += self.state_hashes.len() as u64;
        self.nontrivial += self.nontrivial_hashes.len() as u64;
        self.state_hashes.clear();
        self.nontrivial_hashes.clear();
    }

    pub fn count(&mut self, k: &str, by: u64) {
        if by > 0 {
            *self.counters.entry(k.to_string()).or_default() += by;
        } else {
            self.counters.entry(k.to_string()).or_default();
        }
    }

    pub fn merge(&mut self, mut o: Stats) {
        o.fold_hashes();
        self.jobs += o.jobs;
        self.execs += o.execs;
        self.transitions += o.transitions;
        self.states += o.states;
        self.distinct_traces += o.distinct_traces;
        self.nontrivial += o.nontrivial;
        self.max_polls = self.max_polls.max(o.max_polls);
        self.max_depth = self.max_depth.max(o.max_depth);
        self.max_deviations = self.max_deviations.max(o.max_deviations);
        self.recheck += o.recheck;
        for (k, v) in o.counters {
            *self.counters.entry(k).or_default() += v;
        }
        for (k, c) in o.viol_classes {
            *self.viol_classes.entry(k).or_default() += c;
        }
        self.viol_total += o.viol_total;
        for r in o.viols {
            self.push_viol_rec(r);
        }
        for s in o.samples {
            if self.samples.len() < 6 {
                self.samples.push(s);
            }
        }
        self.machinery_errors.extend(o.machinery_errors);
        self.capped |= o.capped;
    }

    fn push_viol_rec(&mut self, r: ViolRec) {
        // keep at most 3 records per class and 60 in total; prefer short choice lists
        let class = r.class();
        let same: Vec<usize> = self.viols.iter().enumerate().filter(|(_, x)| x.class() == class).map(|(i, _)| i).collect();
        if same.len() >= 3 {
            let worst = same.into_iter().max_by_key(|&i| self.viols[i].choices.len()).unwrap();
            if self.viols[worst].choices.len() > r.choices.len() {
                self.viols[worst] = r;
            }
        } else if self.viols.len() < 60 {
            self.viols.push(r);
        }
    }

    pub fn add_viol(&mut self, r: ViolRec) {
        self.viol_total += 1;
        *self.viol_classes.entry(r.class()).or_default() += 1;
        self.push_viol_rec(r);
    }
}

/// Which violations a check keeps, and how it counts non-trivial executions.
pub struct Focus {
    pub props: Vec<u8>,
    /// Non-triviality rule for future runs / consumer runs.
    pub nontrivial_s: fn(&RunCfg, &Facts) -> bool,
    pub nontrivial_c: fn(&CCfg, &CFacts) -> bool,
    /// Extra named counters.
    pub counters_s: fn(&RunCfg, &Facts, &mut Stats),
    pub counters_c: fn(&CCfg, &CFacts, &mut Stats),
}

pub struct Limits {
    /// None = unbounded (exhaustive); Some(d) = at most d deviations from the base schedule.
    pub deviations: Option<usize>,
    pub deadline: Instant,
}

pub static STOP: AtomicBool = AtomicBool::new(false);

pub fn trace_hash_s(r: &RunRes) -> u64 {
    hash64(&(&r.ev, format!("{:?}{:?}", r.status, r.out)))
}

pub fn trace_hash_c(r: &CRes) -> u64 {
    hash64(&(&r.ev, format!("{:?}{:?}", r.status, r.end)))
}


// ---------------------------------------------------------------------------
// execution watchdog: a single execution takes microseconds; one that runs for tens of
// seconds means a poll of the subject does not return (a loop inside the library).

pub const WATCH_SLOTS: usize = 256;
pub static WATCH_START_MS: [std::sync::atomic::AtomicU64; WATCH_SLOTS] = [const { std::sync::atomic::AtomicU64::new(0) }; WATCH_SLOTS];
pub static WATCH_DESC: Mutex<Vec<(usize, String)>> = Mutex::new(Vec::new());
static WATCH_NEXT: AtomicUsize = AtomicUsize::new(0);
static EPOCH: std::sync::OnceLock<Instant> = std::sync::OnceLock::new();

thread_local! {
    static WATCH_SLOT: usize = WATCH_NEXT.fetch_add(1, Ordering::Relaxed) % WATCH_SLOTS;
}

fn now_ms() -> u64 {
    EPOCH.get_or_init(Instant::now).elapsed().as_millis() as u64 + 1
}

fn watch_job(desc: String) {
    let slot = WATCH_SLOT.with(|s| *s);
    let mut d = WATCH_DESC.lock().unwrap();
    d.retain(|e| e.0 != slot);
    d.push((slot, desc));
}

#[inline]
fn watch_exec_begin() {
    WATCH_SLOT.with(|s| WATCH_START_MS[*s].store(now_ms(), Ordering::Relaxed));
}

#[inline]
fn watch_exec_end() {
    WATCH_SLOT.with(|s| WATCH_START_MS[*s].store(0, Ordering::Relaxed));
}

/// Returns the description of a job one of whose executions has been running for more than
/// `limit_ms`.
pub fn watch_stuck(limit_ms: u64) -> Option<(String, u64)> {
    let now = now_ms();
    for slot in 0..WATCH_SLOTS {
        let st = WATCH_START_MS[slot].load(Ordering::Relaxed);
        if st != 0 && now.saturating_sub(st) > limit_ms {
            let d = WATCH_DESC.lock().unwrap();
            let desc = d.iter().find(|e| e.0 == slot).map(|e| e.1.clone()).unwrap_or_default();
            return Some((desc, now - st));
        }
    }
    None
}

/// Full DFS of one (spec, cfg) job.
pub fn explore_job<M: Mask>(spec: &Spec, info: &Info<M>, cfg: &JobCfg, focus: &Focus, lim: &Limits, st: &mut Stats) {
    st.jobs += 1;
    watch_job(serde_json::to_string(&json!({"graph": spec, "job": cfg.to_json(), "text": format!("{} | {}", cfg.short(), spec.short())})).unwrap_or_default());
    let mut stack: Vec<Vec<u16>> = vec![vec![]];
    let mut states: HashSet<u64> = HashSet::new();
    let mut traces: HashSet<u64> = HashSet::new();
    let mut nontrivial: HashSet<u64> = HashSet::new();
    let mut viols: Vec<Viol> = Vec::new();
    let mut local_execs = 0u64;
    // Small graphs are rebuilt from the specification for every execution. Larger ones
    // (wide families, whose build() is cubic) are cloned from a template that is itself
    // never run, so every execution still starts from a graph value no run has touched.
    let template = if spec.n > 8 { Some(build(spec)) } else { None };
    let pre: Option<&RunCfg> = match cfg {
        JobCfg::S(c) => c.pre.as_deref(),
        JobCfg::C(c) => c.pre.as_deref(),
        _ => None,
    };
    let fresh = || {
        let mut g = template.as_ref().map(|t| t.clone()).unwrap_or_else(|| build(spec));
        if let Some(p) = pre {
            // the earlier run of a history: default schedule, run to its end on this graph value
            let _ = run_on(&mut g, p, vec![]);
        }
        g
    };
    while let Some(prefix) = stack.pop() {
        let plen = prefix.len();
        local_execs += 1;
        if local_execs % 1024 == 0 && (Instant::now() > lim.deadline || STOP.load(Ordering::Relaxed)) {
            st.capped = true;
            break;
        }
        viols.clear();
        let (taken, th, ev, result, is_nontrivial, polls, state_hashes, diverged): (Vec<Taken>, u64, Vec<Ev>, String, bool, usize, Vec<u64>, bool);
        watch_exec_begin();
        match cfg {
            JobCfg::S(c) => {
                let mut g = fresh();
                let r = run_on(&mut g, c, prefix.clone());
                let f = analyze_s(info, c, &r, &mut viols);
                (focus.counters_s)(c, &f, st);
                is_nontrivial = (focus.nontrivial_s)(c, &f);
                th = trace_hash_s(&r);
                result = format!("{:?} {:?}", r.status, r.out);
                polls = r.polls;
                diverged = r.diverged;
                taken = r.taken;
                ev = r.ev;
                state_hashes = r.states;
            }
            JobCfg::C(c) => {
                let g = fresh();
                let r = run_c(&g, c, prefix.clone());
                let f = analyze_c(info, c, &r, &mut viols);
                (focus.counters_c)(c, &f, st);
                is_nontrivial = (focus.nontrivial_c)(c, &f);
                th = trace_hash_c(&r);
                result = format!("{:?} {:?}", r.status, r.end);
                polls = r.polls;
                diverged = r.diverged;
                taken = r.taken;
                ev = r.ev;
                state_hashes = r.states;
            }
            JobCfg::B(_) | JobCfg::H(..) => unreachable!("not a schedule-exploration job"),
        }
        watch_exec_end();
        if diverged {
            st.machinery_errors.push(format!("replay divergence: {} {} prefix={:?}", spec.short(), cfg.short(), prefix));
            continue;
        }
        st.execs += 1;
        st.transitions += (taken.len() + 1 - plen.max(1)) as u64;
        st.max_polls = st.max_polls.max(polls as u64);
        st.max_depth = st.max_depth.max(taken.len() as u64);
        let dev = crate::exec::deviations(&taken);
        st.max_deviations = st.max_deviations.max(dev as u64);
        for h in state_hashes {
            states.insert(h);
        }
        traces.insert(th);
        if is_nontrivial {
            nontrivial.insert(th);
        }
        let choices: Vec<u16> = taken.iter().map(|t| t.c).collect();
        // determinism self-check: every 4096th execution and every violation is re-executed
        let has_viol = viols.iter().any(|v| focus.props.contains(&v.prop));
        if has_viol || st.execs % 4096 == 1 {
            for _ in 0..(if has_viol { 2 } else { 1 }) {
                st.recheck += 1;
                let th2 = match cfg {
                    JobCfg::S(c) => {
                        let mut g = fresh();
                        trace_hash_s(&run_on(&mut g, c, choices.clone()))
                    }
                    JobCfg::C(c) => {
                        let g = fresh();
                        trace_hash_c(&run_c(&g, c, choices.clone()))
                    }
                    _ => unreachable!(),
                };
                if th2 != th {
                    st.machinery_errors.push(format!("nondeterminism: {} {} choices={:?}", spec.short(), cfg.short(), choices));
                }
            }
        }
        if st.samples.len() < 3 && (is_nontrivial || st.execs == 1) && (st.samples.is_empty() || plen > 0) {
            st.samples.push(json!({
                "graph": spec.short(),
                "config": cfg.short(),
                "choices": choices,
                "trace": format!("{:?}", ev),
                "result": result,
            }));
        }
        for vi in viols.drain(..) {
            if focus.props.contains(&vi.prop) {
                st.add_viol(ViolRec {
                    prop: vi.prop,
                    msg: vi.msg,
                    spec: spec.clone(),
                    cfg: cfg.clone(),
                    choices: choices.clone(),
                    trace: ev.clone(),
                    result: result.clone(),
                });
            }
        }
        // children: every alternative at every position at or beyond the prefix
        let base_dev = crate::exec::deviations(&taken[..plen.min(taken.len())]);
        let may_deviate = lim.deviations.map(|d| base_dev + 1 <= d).unwrap_or(true);
        if may_deviate {
            for i in plen..taken.len() {
                let t = taken[i];
                for a in 0..t.k {
                    if a != t.c {
                        let mut p: Vec<u16> = choices[..i].to_vec();
                        p.push(a);
                        stack.push(p);
                    }
                }
            }
        }
    }
    st.states += states.len() as u64;
    st.distinct_traces += traces.len() as u64;
    st.nontrivial += nontrivial.len() as u64;
}

/// One graph input together with the run configurations to explore on it.
pub struct Space {
    pub specs: Vec<Spec>,
    pub cfgs: Box<dyn Fn(&Spec) -> Vec<JobCfg> + Sync + Send>,
    pub deviations: Option<usize>,
    pub label: String,
}

pub fn threads() -> usize {
    std::env::var("FGV_THREADS")
        .ok()
        .and_then(|s| s.parse().ok())
        .unwrap_or_else(|| std::thread::available_parallelism().map(|n| n.get()).unwrap_or(4))
        .max(1)
}

/// Runs `f(index, &mut local)` for every index in 0..total on all cores; results merged in
/// a deterministic way (Stats merging is commutative except for sample choice).
pub fn par_for<L: Send>(total: usize, deadline: Instant, new_local: impl Fn() -> L + Sync, f: impl Fn(usize, &mut L) + Sync, mut merge: impl FnMut(L)) -> bool {
    let next = AtomicUsize::new(0);
    let capped = AtomicBool::new(false);
    let results: Mutex<Vec<L>> = Mutex::new(Vec::new());
    std::thread::scope(|s| {
        for _ in 0..threads().min(total.max(1)) {
            s.spawn(|| {
                let mut local = new_local();
                loop {
                    let i = next.fetch_add(1, Ordering::Relaxed);
                    if i >= total {
                        break;
                    }
                    if Instant::now() > deadline || STOP.load(Ordering::Relaxed) {
                        capped.store(true, Ordering::Relaxed);
                        break;
                    }
                    f(i, &mut local);
                }
                results.lock().unwrap().push(local);
            });
        }
    });
    for l in results.into_inner().unwrap() {
        merge(l);
    }
    capped.load(Ordering::Relaxed)
}

/// Explores every (spec, cfg) of every space. Spaces run one after the other
/// (smallest first), jobs of one space in parallel.
pub fn explore_spaces(spaces: &[Space], focus: &Focus, deadline: Instant, total: &mut Stats, log: &mut Vec<Value>) {
    for sp in spaces {
        if crate::ishim::skip_space_in_this_build(sp.specs.len()) {
            log.push(json!({"space": sp.label, "graphs": sp.specs.len(), "skipped": format!("the default-feature build leaves spaces of more than {} graphs to {}", crate::ishim::space_max_graphs(), if crate::ishim::space_max_graphs() == 3000 { "the thorough tier" } else { "the interruptible build" })}));
            continue;
        }
        let t0 = Instant::now();
        let mut st = Stats::default();
        // few graphs with many configurations each (wide families): parallelise over
        // (graph, configuration) pairs instead of graphs
        let flat: Vec<(usize, usize)> = if sp.specs.len() < 8 * threads() {
            sp.specs.iter().enumerate().flat_map(|(i, s)| (0..(sp.cfgs)(s).len()).map(move |j| (i, j))).collect()
        } else {
            (0..sp.specs.len()).map(|i| (i, usize::MAX)).collect()
        };
        let capped = par_for(
            flat.len(),
            deadline,
            Stats::default,
            |idx, local: &mut Stats| {
                let (i, only) = flat[idx];
                let spec = &sp.specs[i];
                let g = match crate::exec::catch_quiet(|| build(spec)) {
                    Ok(g) => g,
                    Err(_) => {
                        // build() panicking is C11's business; the graph is skipped here
                        local.count("build_panicked_graph_skipped", 1);
                        return;
                    }
                };
                if only == usize::MAX || only == 0 {
                    local.count("graphs", 1);
                }
                let lim = Limits { deviations: sp.deviations, deadline };
                let pick = |v: Vec<JobCfg>| -> Vec<JobCfg> {
                    if only == usize::MAX {
                        v
                    } else {
                        v.into_iter().skip(only).take(1).collect()
                    }
                };
                if spec.n <= 64 {
                    let info: Info<u64> = Info::new(spec, &g);
                    drop(g);
                    if info.unordered_conflicts > 0 && (only == usize::MAX || only == 0) {
                        local.count("graphs_with_unordered_conflicting_pair", 1);
                    }
                    for cfg in pick((sp.cfgs)(spec)) {
                        explore_job(spec, &info, &cfg, focus, &lim, local);
                    }
                } else {
                    let info: Info<BigMask> = Info::new(spec, &g);
                    drop(g);
                    for cfg in pick((sp.cfgs)(spec)) {
                        explore_job(spec, &info, &cfg, focus, &lim, local);
                    }
                }
            },
            |l| st.merge(l),
        );
        st.capped |= capped;
        log.push(json!({
            "space": sp.label,
            "graphs": sp.specs.len(),
            "jobs": st.jobs,
            "executions": st.execs,
            "deviation_bound": sp.deviations.map(|d| json!(d)).unwrap_or(json!("unbounded")),
            "completed": !st.capped,
            "wall_s": t0.elapsed().as_secs_f64(),
        }));
        eprintln!(
            "  [{}] graphs={} jobs={} execs={} viol={} {}{:.1}s",
            sp.label,
            sp.specs.len(),
            st.jobs,
            st.execs,
            st.viol_total,
            if st.capped { "CAPPED " } else { "" },
            t0.elapsed().as_secs_f64()
        );
        total.merge(st);
        if Instant::now() > deadline {
            total.capped = true;
            break;
        }
    }
}

pub fn deadline_for(tier: &str) -> Instant {
    let secs = std::env::var("FGV_WALL_CAP_S").ok().and_then(|s| s.parse().ok()).unwrap_or(if tier == "quick" { 45u64 } else { 1500 });
    Instant::now() + Duration::from_secs(secs)
}
