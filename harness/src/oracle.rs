//! Oracles: pure functions of (graph specification, run configuration, trace).
//!
//! Everything here is computed from the *declarations* and the *user's* edges
//! (plus, where a property speaks about the built graph, the built graph's
//! public edge list) - never from library internals.
use fn_graph::FnGraph;

use crate::{
    engine_c::{CCfg, CEnd, CRes},
    engine_s::{Kind, RunCfg, RunRes, Status, Strat},
    exec::Ev,
    graphs::{raw_edges, Spec},
    mask::{closure_m, transpose_m, Mask},
    node::{conflict, Node},
};

/// A violated clause, tagged with the property (1..=20) that owns it.
#[derive(Clone, Debug, PartialEq, Eq)]
pub struct Viol {
    pub prop: u8,
    pub msg: String,
}

fn v(out: &mut Vec<Viol>, prop: u8, msg: String) {
    out.push(Viol { prop, msg });
}

/// Per-graph facts the trace oracles need, computed once per built graph.
#[derive(Clone, Debug)]
pub struct Info<M: Mask = u64> {
    pub n: usize,
    /// conflict[i] = functions whose declarations conflict with i's
    pub conflict: Vec<M>,
    /// user_reach[i] = functions reachable from i over the user's edges
    pub user_reach: Vec<M>,
    /// user_pred[j] = functions that reach j over the user's edges
    pub user_pred: Vec<M>,
    /// direct predecessors / successors in the built graph (all edge kinds)
    pub built_pred: Vec<M>,
    pub built_succ: Vec<M>,
    /// transitive versions over the built graph
    pub built_reach: Vec<M>,
    pub built_anc: Vec<M>,
    /// pairs that conflict and that the user left unordered
    pub unordered_conflicts: usize,
    pub any_conflict: bool,
}

impl<M: Mask> Info<M> {
    pub fn new(spec: &Spec, g: &FnGraph<Node>) -> Info<M> {
        let n = spec.n;
        let mut conf: Vec<M> = (0..n).map(|_| M::zero(n)).collect();
        let mut any_conflict = false;
        if spec.has_decl() {
            for i in 0..n {
                for j in 0..n {
                    if i != j && conflict(spec.acc(i), spec.acc(j)) {
                        conf[i].set(j);
                        any_conflict = true;
                    }
                }
            }
        }
        let ue = spec.user_edges();
        let user_reach: Vec<M> = closure_m(n, &ue);
        let user_pred = transpose_m(n, &user_reach);
        // (nodes beyond spec.n exist only for Spec::prov == 6 and are unknown to the scheduler)
        let be: Vec<(usize, usize)> = raw_edges(g).iter().map(|&(a, b, _)| (a, b)).filter(|&(a, b)| a < n && b < n).collect();
        let mut built_pred: Vec<M> = (0..n).map(|_| M::zero(n)).collect();
        let mut built_succ: Vec<M> = (0..n).map(|_| M::zero(n)).collect();
        for &(a, b) in &be {
            built_pred[b].set(a);
            built_succ[a].set(b);
        }
        let built_reach: Vec<M> = closure_m(n, &be);
        let built_anc = transpose_m(n, &built_reach);
        let mut unordered = 0;
        if any_conflict {
            for i in 0..n {
                for j in i + 1..n {
                    if conf[i].get(j) && !user_reach[i].get(j) && !user_reach[j].get(i) {
                        unordered += 1;
                    }
                }
            }
        }
        Info { n, conflict: conf, user_reach, user_pred, built_pred, built_succ, built_reach, built_anc, unordered_conflicts: unordered, any_conflict }
    }

    /// Functions that must have finished before j may start (user edges, transitive).
    fn deps(&self, j: usize, rev: bool) -> &M {
        if rev {
            &self.user_reach[j]
        } else {
            &self.user_pred[j]
        }
    }

    /// Direct predecessors of j in the built graph in run direction.
    fn built_direct(&self, j: usize, rev: bool) -> &M {
        if rev {
            &self.built_succ[j]
        } else {
            &self.built_pred[j]
        }
    }

    /// Functions ordered before j by the built graph (transitive) in run direction.
    fn built_before(&self, j: usize, rev: bool) -> &M {
        if rev {
            &self.built_reach[j]
        } else {
            &self.built_anc[j]
        }
    }
}

/// Measured facts about one execution, for the non-vacuity counters.
#[derive(Clone, Debug, Default)]
pub struct Facts {
    pub max_inflight: usize,
    pub starts: usize,
    pub starts_after_interrupt: Option<usize>,
    pub interrupt_before_first_poll: bool,
    pub nested_runs: usize,
    /// The signal was sent by a user future from inside a poll.
    pub mid_poll_signal: bool,
    /// Starts after a mid-poll signal of functions that were ready when it was sent (excused).
    pub excused_after_mid_signal: usize,
    pub idle_points: usize,
    pub failed_started: usize,
    pub all_started: bool,
    pub conflicting_pair_both_ran: bool,
    pub returned: bool,
    pub batched_completions: bool,
}

fn mask_of<M: Mask>(n: usize, f: impl Fn(usize) -> bool) -> M {
    let mut m = M::zero(n);
    for i in 0..n {
        if f(i) {
            m.set(i);
        }
    }
    m
}

/// All trace oracles for the future-returning APIs.
/// Function id an event is about, if any.
fn ev_id(e: &Ev) -> Option<usize> {
    match e {
        Ev::Start(i) | Ev::End(i) | Ev::Release(i) | Ev::SelfWake(i) | Ev::Yield(i) | Ev::YieldInterrupted(i) | Ev::Drop(i) => Some(*i as usize),
        _ => None,
    }
}

pub fn analyze_s<M: Mask>(info: &Info<M>, cfg: &RunCfg, res: &RunRes, out: &mut Vec<Viol>) -> Facts {
    let n = info.n;
    // Nodes beyond the built functions exist only in graphs extended through DerefMut after
    // build() (Spec::prov 6). Whether a run hands such a node out is not pinned down by any
    // property; what is judged is the behaviour on the n built functions.
    let filtered;
    let res = if res.ev.iter().any(|e| ev_id(e).is_some_and(|i| i >= n)) {
        let mut r = res.clone();
        r.ev.retain(|e| ev_id(e).is_none_or(|i| i < n));
        if let Some(o) = r.out.as_mut() {
            o.processed.retain(|&i| i < n);
            o.not_processed.retain(|&i| i < n);
            o.errors.retain(|&i| i < n);
            o.seed.retain(|&i| i < n);
        }
        filtered = r;
        &filtered
    } else {
        res
    };
    let rev = cfg.rev;
    let api = cfg.api;
    let concurrent = api.concurrent();
    let mut started = M::zero(n);
    let mut ended = M::zero(n);
    let mut start_order: Vec<usize> = Vec::with_capacity(n);
    let mut inflight = 0usize;
    let mut f = Facts::default();
    let mut int_at: Option<usize> = None;
    let mut ready_at_mid: Option<M> = None;
    // user futures that returned within the current poll so far / before a mid-poll signal
    let mut ends_in_poll = 0usize;
    let mut mid_allowance = 0usize;
    let mut polled = false;
    let mut releases_in_window = 0usize;
    let fail_mask: M = mask_of(n, |i| api.is_try() && cfg.fail.get(i).copied().unwrap_or(false));
    let any_fail = fail_mask.any();
    let unlimited = cfg.limit.unwrap_or(0) == 0;
    for (k, e) in res.ev.iter().enumerate() {
        match *e {
            Ev::Start(i) => {
                let i = i as usize;
                if started.get(i) {
                    v(out, 3, format!("function {i} handed out a second time (event {k})"));
                }
                if info.any_conflict {
                    let fl = started.and_not(&ended).and(&info.conflict[i]);
                    if fl.any() {
                        v(out, 1, format!("function {i} started while conflicting functions {:?} are in flight (event {k})", fl.list()));
                    }
                }
                let missing = info.deps(i, rev).and_not(&ended);
                if missing.any() {
                    v(out, 2, format!("function {i} started before {:?} finished (event {k})", missing.list()));
                }
                if any_fail {
                    let failed_before = info.built_before(i, rev).and(&fail_mask);
                    if failed_before.any() {
                        v(out, 7, format!("function {i} started although {:?}, ordered before it, fail(s) (event {k})", failed_before.list()));
                    }
                    if api.kind == Kind::TryFold && fail_mask.intersects(&started) {
                        v(out, 7, format!("try_fold invoked function {i} after a failure (event {k})"));
                    }
                }
                started.set(i);
                start_order.push(i);
                inflight += 1;
                f.max_inflight = f.max_inflight.max(inflight);
            }
            Ev::End(i) => {
                ends_in_poll += 1;
                ended.set(i as usize);
                inflight = inflight.saturating_sub(1);
            }
            Ev::Release(_) => {
                releases_in_window += 1;
                if releases_in_window >= 2 {
                    f.batched_completions = true;
                }
            }
            Ev::Interrupt => {
                int_at = Some(start_order.len());
                f.interrupt_before_first_poll = !polled;
            }
            Ev::InterruptMid => {
                // sent by a user future while the call is being polled: functions whose
                // predecessors had all returned at that moment may already have been taken off the
                // ready queue (a concurrent call dequeues before it polls what it holds)
                int_at = Some(start_order.len());
                f.interrupt_before_first_poll = false;
                f.mid_poll_signal = true;
                // every user future that returned earlier in this poll (and the one that sends the
                // signal as it returns) cut one round of polling short, which can leave one function
                // dequeued but not yet started
                mid_allowance = ends_in_poll + matches!(res.ev.get(k + 1), Some(Ev::End(_))) as usize;
                // diagnosis only: the strictly literal reading (no allowance)
                static LITERAL: std::sync::OnceLock<bool> = std::sync::OnceLock::new();
                if *LITERAL.get_or_init(|| std::env::var("FGV_LITERAL_MID").is_ok()) {
                    mid_allowance = 0;
                }
                let mut m = M::zero(n);
                for i in 0..n {
                    if !started.get(i) && !info.built_direct(i, rev).and_not(&ended).any() {
                        m.set(i);
                    }
                }
                ready_at_mid = Some(m);
            }
            Ev::Poll { .. } => {
                polled = true;
                ends_in_poll = 0;
                releases_in_window = 0;
            }
            Ev::Pending { woken } => {
                if !woken {
                    f.idle_points += 1;
                    let int_effective = int_at.is_some() && cfg.strat.effective();
                    if concurrent && unlimited && !int_effective && !started.intersects(&fail_mask) {
                        for i in 0..n {
                            if !started.get(i) && !info.built_direct(i, rev).and_not(&ended).any() {
                                v(out, 6, format!("call is idle (pending, no wake-up) but function {i} has all built-graph predecessors finished and was not started (event {k})"));
                                if cfg.limit == Some(0) {
                                    v(out, 10, format!("limit 0 means unbounded, but the call is idle while function {i}, whose predecessors have all finished, was not started (event {k})"));
                                }
                            }
                        }
                    }
                }
            }
            _ => {}
        }
    }
    // nested runs driven by user futures of this run: each is a run of its own (C20) and must be
    // complete, exactly-once and in dependency order like any other
    for nr in &res.nested {
        f.nested_runs += 1;
        let what = ["", "for_each_concurrent", "fold_async", "stream", "for_each_concurrent (functions pending for two polls)", "try_for_each_concurrent"][nr.kind.min(5) as usize];
        let mut nst = M::zero(n);
        let mut nen = M::zero(n);
        for &e in &nr.order {
            let i = (e.unsigned_abs() as usize).saturating_sub(1);
            if i >= n {
                continue;
            }
            if e > 0 {
                if nst.get(i) {
                    v(out, 3, format!("nested {what} run (driven by a user future of this run): function {i} handed out twice"));
                    v(out, 20, format!("nested {what} run: function {i} handed out twice"));
                }
                let missing = info.built_direct(i, false).and_not(&nen);
                if missing.any() {
                    v(out, 2, format!("nested {what} run (driven by a user future of this run): function {i} started before {:?} finished", missing.list()));
                    v(out, 20, format!("nested {what} run: function {i} started before {:?} finished", missing.list()));
                    if info.any_conflict {
                        v(out, 1, format!("nested {what} run: function {i} started before its conflicting predecessors {:?} finished", missing.list()));
                    }
                }
                nst.set(i);
            } else {
                nen.set(i);
            }
        }
        if !nr.completed || nst.count() != n {
            let missing: Vec<usize> = (0..n).filter(|i| !nst.get(*i)).collect();
            v(out, 4, format!("nested {what} run driven by a user future of this run did not return (never handed out {missing:?})"));
            v(out, 3, format!("nested {what} run: clean run never hands out {missing:?}"));
            v(out, 20, format!("nested {what} run did not return (never handed out {missing:?})"));
        }
    }
    if !res.nested.is_empty() && !matches!(res.status, Status::Returned | Status::Aborted) {
        v(out, 20, format!("run with a nested run inside one of its user futures: {:?}", res.status));
        // the rest of this run comes after a completed run on the same graph value
        v(out, 15, format!("run that continues after a nested run completed on the same graph value: {:?}", res.status));
    }
    f.starts = start_order.len();
    f.all_started = started.count() == n;
    f.failed_started = started.and(&fail_mask).count();
    f.starts_after_interrupt = int_at.map(|k| start_order.len() - k);
    if info.any_conflict {
        for i in 0..n {
            if started.get(i) && info.conflict[i].intersects(&started) {
                f.conflicting_pair_both_ran = true;
                break;
            }
        }
    }
    let limited = concurrent && cfg.limit.map(|l| l >= 1).unwrap_or(false);
    // a call that does not return also breaks the "returns Err/Break" clause of C07 when a
    // function failed, and the "the call returns" clause of C08 when a signal was sent
    let no_return = |out: &mut Vec<Viol>, how: &str| {
        let interrupted = int_at.is_some() && cfg.strat.effective();
        if !interrupted && !started.intersects(&fail_mask) && started.count() != n {
            // "exactly once in a clean run": a clean run that can never hand out a function
            let missing: Vec<usize> = (0..n).filter(|i| !started.get(*i)).collect();
            v(out, 3, format!("clean run never hands out {missing:?}: the call does not return ({how})"));
        }
        if started.intersects(&fail_mask) {
            v(out, 7, format!("the call does not return after functions {:?} failed ({how})", started.and(&fail_mask).list()));
        }
        if int_at.is_some() {
            v(out, 8, format!("the call does not return after the interrupt signal ({how})"));
        }
    };
    match &res.status {
        Status::Returned => {}
        Status::Deadlock => {
            v(out, 4, "future is pending, no wake-up was signalled and no user future is left to complete (deadlock / lost wake-up)".into());
            if limited {
                v(out, 10, format!("limit {:?} blocks completion (deadlock)", cfg.limit));
            }
            no_return(out, "deadlock");
            return f;
        }
        Status::Livelock => {
            v(out, 4, format!("poll horizon exceeded after {} polls (livelock)", res.polls));
            if limited {
                v(out, 10, format!("limit {:?} blocks completion (livelock)", cfg.limit));
            }
            no_return(out, "livelock");
            return f;
        }
        Status::Panic(m) => {
            v(out, 4, format!("panic: {m}"));
            no_return(out, "panic");
            return f;
        }
        Status::Aborted => return f,
    }
    f.returned = true;
    let o = res.out.as_ref().expect("returned run has an output");
    let unfinished = started.and_not(&ended);
    if unfinished.any() {
        v(out, 4, format!("returned while user futures {:?} it started are still pending", unfinished.list()));
        if started.intersects(&fail_mask) {
            v(out, 7, format!("returned before in-flight functions {:?} finished", unfinished.list()));
        }
        if int_at.is_some() {
            v(out, 8, format!("returned before started functions {:?} finished", unfinished.list()));
        }
    }
    // C10
    if concurrent {
        if let Some(l) = cfg.limit {
            if l >= 1 && f.max_inflight > l {
                v(out, 10, format!("{} user futures in flight with limit {l}", f.max_inflight));
            }
        }
    } else if f.max_inflight > 1 {
        v(out, 10, format!("fold had {} user futures in flight", f.max_inflight));
    }
    // C03: clean run = no effective interrupt, nothing failed
    let interrupted = int_at.is_some() && cfg.strat.effective();
    let clean = !interrupted && !started.intersects(&fail_mask);
    if clean && !f.all_started {
        let missing: Vec<usize> = (0..n).filter(|i| !started.get(*i)).collect();
        v(out, 3, format!("clean run returned without handing out {missing:?}"));
        if limited {
            v(out, 10, format!("limit {:?}: run returned without running {missing:?}", cfg.limit));
        }
    }
    // C08
    if let Some(k) = int_at {
        let mut after = start_order.len() - k;
        if let (Some(m), true) = (&ready_at_mid, concurrent) {
            // mid-poll signal, concurrent call: only functions that became ready after the signal count
            f.excused_after_mid_signal = start_order[k..].iter().filter(|&&i| m.get(i)).count();
            after -= f.excused_after_mid_signal;
        }
        let bound = match cfg.strat {
            Strat::Finish | Strat::NextN(0) => {
                if !cfg.include || f.interrupt_before_first_poll {
                    0
                } else {
                    1
                }
            }
            Strat::NextN(m) => m as usize,
            _ => usize::MAX,
        };
        if ready_at_mid.is_some() && concurrent && bound != usize::MAX && start_order.len() - k > bound + mid_allowance {
            v(out, 8, format!("{} functions started after a signal sent from inside the poll, bound is {bound} (+{mid_allowance} that may have been taken off the ready queue already: one per user future that returned earlier in that poll) ({:?}, include={})", start_order.len() - k, cfg.strat, cfg.include));
        }
        if after > bound {
            v(out, 8, format!("{after} functions started after the interrupt, bound is {bound} ({:?}, include={}, before first poll={})", cfg.strat, cfg.include, f.interrupt_before_first_poll));
        }
        if !cfg.strat.effective() && !started.intersects(&fail_mask) && !f.all_started {
            v(out, 8, format!("{:?}: a signal changed which functions run", cfg.strat));
        }
        if o.has_outcome {
            for &i in &start_order {
                if !o.processed.contains(&i) {
                    v(out, 8, format!("started function {i} is not reported as processed"));
                }
            }
        }
    }
    // C09
    if o.has_outcome {
        if o.processed != start_order {
            v(out, 9, format!("fn_ids_processed {:?} != start order {:?}", o.processed, start_order));
        }
        let np: Vec<usize> = (0..n).filter(|i| !started.get(*i)).collect();
        if o.not_processed != np {
            v(out, 9, format!("fn_ids_not_processed {:?} != {:?}", o.not_processed, np));
        }
        let want = if f.all_started { "Finished" } else { "Interrupted" };
        if o.state != want {
            v(out, 9, format!("state {} but {}", o.state, if f.all_started { "every function was processed" } else { "not every function was processed" }));
        }
        if api.kind == Kind::Control {
            let want_continue = f.all_started && !started.intersects(&fail_mask);
            if o.ok != want_continue {
                v(out, 9, format!("control variant returned {} but state={} broke={:?}", if o.ok { "Continue" } else { "Break" }, o.state, started.and(&fail_mask).list()));
            }
        }
    }
    // C07
    if api.is_try() {
        let failed_started: Vec<usize> = started.and(&fail_mask).list();
        match api.kind {
            Kind::TryForEach | Kind::Control => {
                let mut es = o.errors.clone();
                es.sort_unstable();
                if es != failed_started {
                    v(out, 7, format!("errors returned {:?} != failed functions {:?}", o.errors, failed_started));
                }
                if o.ok && !failed_started.is_empty() {
                    v(out, 7, format!("returned Ok/Continue although {:?} failed", failed_started));
                }
                if api.kind == Kind::TryForEach && !o.ok && failed_started.is_empty() {
                    v(out, 7, "returned Err although nothing failed".into());
                }
            }
            Kind::TryFold => {
                if let Some(&first) = start_order.iter().find(|&&i| fail_mask.get(i)) {
                    if o.ok || o.errors != vec![first] {
                        v(out, 7, format!("try_fold returned ok={} errors={:?}, expected the error of {first}", o.ok, o.errors));
                    }
                } else if !o.ok {
                    v(out, 7, "try_fold returned Err although nothing failed".into());
                }
            }
            _ => {}
        }
    }
    f
}

#[derive(Clone, Debug, Default)]
pub struct CFacts {
    pub yields: usize,
    pub max_held: usize,
    pub all_yielded: bool,
    pub yields_after_interrupt: Option<usize>,
    pub interrupt_before_first_poll: bool,
    pub idle_points: usize,
    pub multi_drop_windows: usize,
    pub ended: bool,
    pub saw_interrupted_item: bool,
    pub conflicting_pair_both_yielded: bool,
    pub stream_dropped_early: bool,
}

/// All trace oracles for the stream APIs.
pub fn analyze_c<M: Mask>(info: &Info<M>, cfg: &CCfg, res: &CRes, out: &mut Vec<Viol>) -> CFacts {
    let n = info.n;
    let filtered;
    let res = if res.ev.iter().any(|e| ev_id(e).is_some_and(|i| i >= n)) {
        let mut r = res.clone();
        r.ev.retain(|e| ev_id(e).is_none_or(|i| i < n));
        filtered = r;
        &filtered
    } else {
        res
    };
    let rev = cfg.rev && cfg.api.takes_opts();
    let mut yielded = M::zero(n);
    let mut dropped = M::zero(n);
    let mut f = CFacts::default();
    let mut int_at: Option<usize> = None;
    let mut polled = false;
    let mut after_interrupted_item = false;
    let mut stream_alive = true;
    let mut drops_in_window = 0usize;
    let effective = cfg.interruptible_effective();
    for (k, e) in res.ev.iter().enumerate() {
        match *e {
            Ev::Yield(i) | Ev::YieldInterrupted(i) => {
                let i = i as usize;
                if after_interrupted_item {
                    v(out, 8, format!("item yielded after the Interrupted item (event {k})"));
                }
                if matches!(e, Ev::YieldInterrupted(_)) {
                    after_interrupted_item = true;
                    f.saw_interrupted_item = true;
                    if int_at.is_none() {
                        v(out, 8, format!("Interrupted item without a signal (event {k})"));
                    }
                }
                if yielded.get(i) {
                    v(out, 3, format!("function {i} yielded a second time (event {k})"));
                }
                if info.any_conflict {
                    let held = yielded.and_not(&dropped).and(&info.conflict[i]);
                    if held.any() {
                        v(out, 1, format!("function {i} yielded while FnRefs of conflicting functions {:?} are alive (event {k})", held.list()));
                    }
                }
                let missing = info.deps(i, rev).and_not(&dropped);
                if missing.any() {
                    v(out, 2, format!("function {i} yielded before the FnRefs of {:?} were dropped (event {k})", missing.list()));
                }
                yielded.set(i);
                f.yields += 1;
                f.max_held = f.max_held.max(yielded.and_not(&dropped).count());
            }
            Ev::InterruptedNone => {
                if after_interrupted_item {
                    v(out, 8, format!("item yielded after the Interrupted item (event {k})"));
                }
                after_interrupted_item = true;
                f.saw_interrupted_item = true;
                if int_at.is_none() {
                    v(out, 8, format!("Interrupted item without a signal (event {k})"));
                }
            }
            Ev::Drop(i) => {
                dropped.set(i as usize);
                drops_in_window += 1;
                if drops_in_window == 2 && stream_alive {
                    f.multi_drop_windows += 1;
                }
            }
            Ev::Interrupt => {
                int_at = Some(f.yields);
                f.interrupt_before_first_poll = !polled;
            }
            Ev::Poll { .. } => {
                polled = true;
                drops_in_window = 0;
            }
            Ev::DropSubject => {
                stream_alive = false;
                f.stream_dropped_early = true;
            }
            Ev::StreamEnd => {
                f.ended = true;
                let interrupted = effective && int_at.is_some();
                if !interrupted && yielded.count() != n {
                    let missing: Vec<usize> = (0..n).filter(|i| !yielded.get(*i)).collect();
                    v(out, 5, format!("stream ended (None) before {missing:?} were yielded (event {k})"));
                    v(out, 3, format!("clean stream ended without yielding {missing:?}"));
                    if int_at.is_some() && !effective {
                        v(out, 8, format!("{:?}: a signal changed which functions are yielded", cfg.strat));
                    }
                }
            }
            Ev::Pending { woken } => {
                if after_interrupted_item {
                    v(out, 8, format!("stream is pending after the Interrupted item instead of ending (event {k})"));
                }
                if yielded.count() == n {
                    v(out, 5, format!("stream is pending after every function was yielded (event {k})"));
                }
                if !woken {
                    f.idle_points += 1;
                    for i in 0..n {
                        if !yielded.get(i) && !info.built_direct(i, rev).and_not(&dropped).any() {
                            v(out, 5, format!("poll returned Pending without a wake-up although every predecessor FnRef of {i} was dropped (event {k})"));
                            if !(effective && int_at.is_some()) {
                                v(out, 6, format!("stream idle but function {i} is releasable (event {k})"));
                            }
                        }
                    }
                }
            }
            _ => {}
        }
    }
    f.all_yielded = yielded.count() == n;
    f.yields_after_interrupt = int_at.map(|k| f.yields - k);
    if info.any_conflict {
        for i in 0..n {
            if yielded.get(i) && info.conflict[i].intersects(&yielded) {
                f.conflicting_pair_both_yielded = true;
                break;
            }
        }
    }
    match &res.status {
        Status::Returned => {}
        Status::Panic(m) => {
            v(out, 5, format!("panic: {m}"));
            return f;
        }
        Status::Livelock => {
            v(out, 5, format!("poll horizon exceeded after {} polls (wake-up without progress)", res.polls));
            return f;
        }
        _ => return f,
    }
    if res.end == Some(CEnd::Parked) {
        let missing: Vec<usize> = (0..n).filter(|i| !yielded.get(*i)).collect();
        v(out, 5, format!("consumer is parked (last poll Pending, no wake-up, every FnRef dropped) but the stream has not ended; unyielded: {missing:?}"));
        if !(effective && int_at.is_some()) && !missing.is_empty() {
            v(out, 3, format!("clean stream run never hands out {missing:?}: the stream stalls with every FnRef dropped"));
        }
        if effective && int_at.is_some() {
            v(out, 8, "interrupted stream never ends".into());
        }
    }
    if let Some(k) = int_at {
        let after = f.yields - k;
        if effective {
            let bound = match cfg.strat {
                Strat::Finish | Strat::NextN(0) => {
                    if f.interrupt_before_first_poll {
                        0
                    } else {
                        1
                    }
                }
                Strat::NextN(m) => m as usize,
                _ => usize::MAX,
            };
            if after > bound {
                v(out, 8, format!("{after} items yielded after the interrupt, bound is {bound} ({:?}, before first poll={})", cfg.strat, f.interrupt_before_first_poll));
            }
        }
    }
    f
}
