//! Histories of runs on one graph value (C15) and simultaneous runs on one
//! shared graph (C20). Both use a differential oracle: the run under test must
//! be indistinguishable from the same choices replayed alone on a fresh graph.
use std::{future::Future, ops::ControlFlow, pin::Pin, time::Instant};

use fn_graph::{FnGraph, StreamOutcome};
use futures::FutureExt;
use interruptible::{InterruptSignal, InterruptibilityState};
use serde_json::{json, Value};
use tokio::sync::mpsc;

use crate::{
    engine_c::{run_c, CCfg, CRes, SApi},
    engine_s::{run_on, Api, Driver, DriveRes, Kind, Out, RunCfg, RunRes, Status, Strat},
    exec::{catch_quiet, start, Chooser, ChooserRef, Sh, Shared, Taken},
    explore::{hash64, par_for, JobCfg, Stats, ViolRec},
    graphs::{build, Spec},
    node::Node,
    props_run::shapes_upto,
};

#[derive(Clone, Debug)]
enum AnyCfg {
    S(RunCfg),
    C(CCfg),
}

impl AnyCfg {
    fn short(&self) -> String {
        match self {
            AnyCfg::S(c) => c.short(),
            AnyCfg::C(c) => c.short(),
        }
    }
    fn json(&self) -> Value {
        match self {
            AnyCfg::S(c) => json!({"engine": "S", "cfg": c}),
            AnyCfg::C(c) => json!({"engine": "C", "cfg": c}),
        }
    }
}

fn sig_s(r: &RunRes) -> u64 {
    hash64(&(&r.ev, format!("{:?}{:?}", r.status, r.out), r.taken.iter().map(|t| (t.c, t.k)).collect::<Vec<_>>(), r.diverged))
}

fn sig_c(r: &CRes) -> u64 {
    hash64(&(&r.ev, format!("{:?}{:?}", r.status, r.end), r.taken.iter().map(|t| (t.c, t.k)).collect::<Vec<_>>(), r.diverged))
}

struct AnyRes {
    sig: u64,
    taken: Vec<Taken>,
    text: String,
}

fn run_any(g: &mut FnGraph<Node>, cfg: &AnyCfg, prefix: Vec<u16>) -> AnyRes {
    match cfg {
        AnyCfg::S(c) => {
            let r = run_on(g, c, prefix);
            AnyRes { sig: sig_s(&r), text: format!("{:?} -> {:?} {:?}", r.ev, r.status, r.out), taken: r.taken }
        }
        AnyCfg::C(c) => {
            let r = run_c(g, c, prefix);
            AnyRes { sig: sig_c(&r), text: format!("{:?} -> {:?} {:?}", r.ev, r.status, r.end), taken: r.taken }
        }
    }
}

/// Enumerates the full DFS tree of `cfg` on fresh graphs: (choices, signature) per execution,
/// plus the prefix length at which each execution was first reached.
fn full_tree(spec: &Spec, cfg: &AnyCfg) -> Vec<(Vec<u16>, usize, u64)> {
    let mut out = vec![];
    let mut stack: Vec<Vec<u16>> = vec![vec![]];
    while let Some(p) = stack.pop() {
        let pl = p.len();
        let mut g = build(spec);
        let r = run_any(&mut g, cfg, p);
        let key: Vec<u16> = r.taken.iter().map(|t| t.c).collect();
        for i in pl..r.taken.len() {
            for a in 0..r.taken[i].k {
                if a != r.taken[i].c {
                    let mut q = key[..i].to_vec();
                    q.push(a);
                    stack.push(q);
                }
            }
        }
        out.push((key, pl, r.sig));
    }
    out
}

fn first_cfgs(n: usize) -> Vec<AnyCfg> {
    let mut v = vec![];
    let fail: Vec<bool> = (0..n).map(|i| i == 1).collect();
    for api in Api::all_with() {
        let mut c = RunCfg::plain(api, n);
        c.strat = Strat::Finish;
        c.interrupt = true;
        if api.is_try() {
            c.fail = fail.clone();
        }
        v.push(AnyCfg::S(c));
    }
    let mut c = RunCfg::plain(Api { kind: Kind::ForEach, mutable: true, with: true }, n);
    c.rev = true;
    c.limit = Some(1);
    v.push(AnyCfg::S(c));
    let mut c = RunCfg::plain(Api { kind: Kind::TryForEach, mutable: true, with: false }, n);
    c.fail = (0..n).map(|i| i == 0).collect();
    v.push(AnyCfg::S(c));
    let mut s = CCfg::plain(SApi::StreamWith);
    s.drop_stream = true;
    v.push(AnyCfg::C(s.clone()));
    s.rev = true;
    v.push(AnyCfg::C(s));
    let mut s = CCfg::plain(SApi::StreamWithInterruptible);
    s.strat = Strat::Finish;
    s.interrupt = true;
    s.drop_stream = true;
    v.push(AnyCfg::C(s));
    v
}

fn second_cfgs(n: usize) -> Vec<AnyCfg> {
    let mut v = vec![];
    for (kind, mutable) in [(Kind::ForEach, true), (Kind::TryForEach, true), (Kind::Fold, true), (Kind::ForEach, false), (Kind::TryFold, false), (Kind::Control, true)] {
        let mut c = RunCfg::plain(Api { kind, mutable, with: true }, n);
        if kind == Kind::TryFold {
            c.fail = (0..n).map(|i| i == 1).collect();
        }
        if kind == Kind::ForEach && !mutable {
            c.rev = true;
        }
        v.push(AnyCfg::S(c));
    }
    v.push(AnyCfg::C(CCfg::plain(SApi::Stream)));
    let mut s = CCfg::plain(SApi::StreamWith);
    s.rev = true;
    v.push(AnyCfg::C(s));
    v
}

pub fn run_c15(tier: &str, deadline: Instant, total: &mut Stats, log: &mut Vec<Value>) {
    let nmax = if tier == "thorough" { 3 } else { 2 };
    for n in 0..=nmax {
        let specs = shapes_upto(n, n, tier == "thorough" && n <= 2);
        let mut firsts = first_cfgs(n);
        let mut seconds = second_cfgs(n);
        if tier == "thorough" {
            // more histories: plain (non-_with) methods, PollNextN, IgnoreInterruptions, limits
            for api in Api::all_plain() {
                let mut c = RunCfg::plain(api, n);
                if api.is_try() {
                    c.fail = (0..n).map(|i| i + 1 == n).collect();
                }
                firsts.push(AnyCfg::S(c));
            }
            for (kind, strat) in [(Kind::ForEach, Strat::NextN(1)), (Kind::Fold, Strat::NextN(1)), (Kind::TryForEach, Strat::Ignore)] {
                let mut c = RunCfg::plain(Api { kind, mutable: true, with: true }, n);
                c.strat = strat;
                c.interrupt = true;
                c.include = false;
                c.rev = true;
                firsts.push(AnyCfg::S(c));
            }
            let mut c = RunCfg::plain(Api { kind: Kind::ForEach, mutable: false, with: true }, n);
            c.limit = Some(1);
            seconds.push(AnyCfg::S(c));
            let mut c = RunCfg::plain(Api { kind: Kind::TryForEach, mutable: false, with: true }, n);
            c.rev = true;
            c.strat = Strat::Finish;
            c.interrupt = true;
            seconds.push(AnyCfg::S(c));
            let mut s2 = CCfg::plain(SApi::StreamWithInterruptible);
            s2.strat = Strat::NextN(1);
            s2.interrupt = true;
            seconds.push(AnyCfg::C(s2));
        }
        let mut items: Vec<(usize, usize, usize)> = vec![];
        for s in 0..specs.len() {
            for a in 0..firsts.len() {
                for b in 0..seconds.len() {
                    items.push((s, a, b));
                }
            }
        }
        let t0 = Instant::now();
        let mut st = Stats::default();
        let (specs, firsts, seconds) = (&specs, &firsts, &seconds);
        let capped = par_for(
            items.len(),
            deadline,
            Stats::default,
            |i, local: &mut Stats| {
                let (si, ai, bi) = items[i];
                let spec = &specs[si];
                let (c1, c2) = (&firsts[ai], &seconds[bi]);
                let ref2 = full_tree(spec, c2);
                let tree1 = full_tree(spec, c1);
                local.jobs += 1;
                let mut sigs = std::collections::HashSet::new();
                for (key1, pl, _) in &tree1 {
                    // abort points: every node of the DFS tree that this execution reaches first
                    let aborts: Vec<Option<usize>> = match c1 {
                        AnyCfg::S(_) => (*pl..=key1.len()).map(Some).chain([None]).collect(),
                        AnyCfg::C(_) => vec![None],
                    };
                    for abort in aborts {
                        if Instant::now() > deadline {
                            local.capped = true;
                            return;
                        }
                        let mut g = build(spec);
                        let c1a = match c1 {
                            AnyCfg::S(c) => {
                                let mut c = c.clone();
                                c.abort_at = abort;
                                AnyCfg::S(c)
                            }
                            other => other.clone(),
                        };
                        let r1 = run_any(&mut g, &c1a, key1.clone());
                        local.transitions += r1.taken.len() as u64;
                        sigs.insert(r1.sig);
                        for (key2, _, want) in &ref2 {
                            let r2 = run_any(&mut g, c2, key2.clone());
                            local.execs += 1;
                            local.transitions += r2.taken.len() as u64;
                            if r2.sig != *want {
                                let mut gf = build(spec);
                                let fresh = run_any(&mut gf, c2, key2.clone());
                                local.add_viol(ViolRec {
                                    prop: 15,
                                    msg: format!("run on a reused graph differs from the same run on a fresh graph (earlier run: {} aborted at {:?})", c1.short(), abort),
                                    spec: spec.clone(),
                                    cfg: JobCfg::H(
                                        format!("history first=[{}] second=[{}]", c1.short(), c2.short()),
                                        json!({"first": c1a.json(), "first_choices": key1, "first_abort_at": abort, "second": c2.json(), "second_choices": key2}),
                                    ),
                                    choices: key2.clone(),
                                    trace: vec![],
                                    result: format!("reused: {} | fresh: {}", r2.text, fresh.text),
                                });
                            }
                        }
                        if local.samples.len() < 2 && abort.is_some() && r1.taken.len() >= 2 {
                            local.samples.push(json!({"graph": spec.short(), "first_run": c1.short(), "first_choices": key1, "aborted_at_choice": abort, "second_run": c2.short(), "second_run_executions_compared": ref2.len()}));
                        }
                    }
                }
                local.states += sigs.len() as u64;
                local.distinct_traces += sigs.len() as u64;
                local.nontrivial += sigs.len().saturating_sub(1) as u64;
                local.count("first_run_nodes_used_as_history", tree1.len() as u64);
            },
            |l| st.merge(l),
        );
        st.capped |= capped;
        let label = format!("n={n}: {} shapes x {} first runs (every abort point / every consumer behaviour incl. dropping the stream) x {} second runs (full DFS each)", specs.len(), firsts.len(), seconds.len());
        log.push(json!({"space": label, "pairs_compared": st.execs, "completed": !st.capped, "wall_s": t0.elapsed().as_secs_f64()}));
        eprintln!("  [{label}] pairs={} viol={} {}{:.1}s", st.execs, st.viol_total, if st.capped { "CAPPED " } else { "" }, t0.elapsed().as_secs_f64());
        total.merge(st);
        if Instant::now() > deadline {
            total.capped = true;
            break;
        }
    }
}

// ---------------------------------------------------------------------------
// C20: two runs on one shared graph, interleaved by one explorer

type BoxFut<'a> = Pin<Box<dyn Future<Output = Out> + 'a>>;

fn so_out<T>(ok: bool, so: StreamOutcome<T>, errors: Vec<usize>, seed: impl FnOnce(T) -> Vec<usize>) -> Out {
    Out {
        ok,
        has_outcome: true,
        state: format!("{:?}", so.state),
        processed: so.fn_ids_processed.iter().map(|i| i.index()).collect(),
        not_processed: so.fn_ids_not_processed.iter().map(|i| i.index()).collect(),
        errors,
        seed: seed(so.value),
    }
}

/// The `&self` streaming methods as boxed futures (so that two can be alive at once).
fn shared_fut<'a>(g: &'a FnGraph<Node>, cfg: &RunCfg, sh: &Sh, irx: &'a mut mpsc::Receiver<InterruptSignal>) -> BoxFut<'a> {
    let state = match cfg.strat {
        Strat::Non => InterruptibilityState::new_non_interruptible(),
        Strat::Ignore => InterruptibilityState::new_ignore_interruptions(irx.into()),
        Strat::Finish => InterruptibilityState::new_finish_current(irx.into()),
        Strat::NextN(k) => InterruptibilityState::new_poll_next_n(irx.into(), k),
    };
    let opts = crate::engine_s::build_opts(cfg.opts_order, state, cfg.include, cfg.rev);
    let limit = cfg.limit;
    let sh2 = sh.clone();
    let unit = |()| Vec::<usize>::new();
    assert!(!cfg.api.mutable && cfg.api.with);
    match cfg.api.kind {
        Kind::ForEach => {
            let f = move |nd: &Node| start(&sh2, nd.id).map(|_| ());
            Box::pin(g.for_each_concurrent_with(limit, opts, f).map(move |so| so_out(true, so, vec![], unit)))
        }
        Kind::TryForEach => {
            let f = move |nd: &Node| {
                let id = nd.id;
                start(&sh2, id).map(move |ok| if ok { Ok(()) } else { Err(id) })
            };
            Box::pin(g.try_for_each_concurrent_with(limit, opts, f).map(move |r| match r {
                Ok(so) => so_out(true, so, vec![], unit),
                Err((so, es)) => so_out(false, so, es, unit),
            }))
        }
        Kind::Control => {
            let f = move |nd: &Node| {
                let id = nd.id;
                start(&sh2, id).map(move |ok| if ok { ControlFlow::Continue(()) } else { ControlFlow::Break(id) })
            };
            Box::pin(g.try_for_each_concurrent_control_with(limit, opts, f).map(move |r| match r {
                ControlFlow::Continue(so) => so_out(true, so, vec![], unit),
                ControlFlow::Break((so, es)) => so_out(false, so, es, unit),
            }))
        }
        Kind::Fold => Box::pin(g.fold_async_with(Vec::<usize>::new(), opts, crate::fold_closure!(sh2)).map(|so| so_out(true, so, vec![], |v| v))),
        Kind::TryFold => Box::pin(g.try_fold_async_with(Vec::<usize>::new(), opts, crate::try_fold_closure!(sh2)).map(|r: Result<StreamOutcome<Vec<usize>>, usize>| match r {
            Ok(so) => so_out(true, so, vec![], |v| v),
            Err(e) => Out { ok: false, has_outcome: false, errors: vec![e], ..Default::default() },
        })),
    }
}

struct SideRes {
    sig: u64,
    choices: Vec<u16>,
    text: String,
}

struct PairRes {
    a: SideRes,
    b: SideRes,
    global: Vec<Taken>,
    switches: usize,
    overlapped: bool,
}

enum AnyDriver<'a, 'f> {
    S(Driver<'a, BoxFut<'f>>),
    C(crate::engine_c::CDriver<'f>),
}

enum AnyEnd {
    S(DriveRes),
    C(Status, Option<crate::engine_c::CEnd>),
}

impl AnyDriver<'_, '_> {
    fn step(&mut self) -> Option<AnyEnd> {
        match self {
            AnyDriver::S(d) => d.step().map(AnyEnd::S),
            AnyDriver::C(d) => d.step().map(|(s, e)| AnyEnd::C(s, e)),
        }
    }
}

/// Runs A and B on one `&FnGraph`, all decisions (which run acts next, and each run's own
/// environment answers) drawn from one choice list.
fn run_pair(g: &FnGraph<Node>, ca: &AnyCfg, cb: &AnyCfg, prefix: Vec<u16>, switch_bound: usize) -> Result<PairRes, String> {
    let n = g.graph.node_count();
    let ch: ChooserRef = Chooser::shared(prefix);
    let mk_sh = |c: &AnyCfg| {
        let (mut fail, imm) = match c {
            AnyCfg::S(c) => (c.fail.clone(), c.imm_choice),
            AnyCfg::C(_) => (vec![], false),
        };
        fail.resize(n, false);
        Shared::new(n, fail, ch.clone(), imm, false)
    };
    let (sha, shb) = (mk_sh(ca), mk_sh(cb));
    // one interrupt channel per side and per engine kind (only one of each pair is used)
    let (itxa, mut irxa) = mpsc::channel::<InterruptSignal>(4);
    let (itxb, mut irxb) = mpsc::channel::<InterruptSignal>(4);
    let (itxa2, mut irxa2) = mpsc::channel::<InterruptSignal>(4);
    let (itxb2, mut irxb2) = mpsc::channel::<InterruptSignal>(4);
    let r = catch_quiet(|| {
        let mut fa: Option<BoxFut<'_>> = match ca {
            AnyCfg::S(c) => Some(shared_fut(g, c, &sha, &mut irxa)),
            AnyCfg::C(_) => None,
        };
        let mut fb: Option<BoxFut<'_>> = match cb {
            AnyCfg::S(c) => Some(shared_fut(g, c, &shb, &mut irxb)),
            AnyCfg::C(_) => None,
        };
        let mut da = match ca {
            AnyCfg::S(c) => AnyDriver::S(Driver::new(Pin::new(fa.as_mut().unwrap()), &sha, c, if c.strat == Strat::Non { None } else { Some(&itxa) })),
            AnyCfg::C(c) => AnyDriver::C(crate::engine_c::CDriver::new(g, c, &mut irxa2, itxa2.clone(), ch.clone())),
        };
        let mut db = match cb {
            AnyCfg::S(c) => AnyDriver::S(Driver::new(Pin::new(fb.as_mut().unwrap()), &shb, c, if c.strat == Strat::Non { None } else { Some(&itxb) })),
            AnyCfg::C(c) => AnyDriver::C(crate::engine_c::CDriver::new(g, c, &mut irxb2, itxb2.clone(), ch.clone())),
        };
        let (mut ra, mut rb): (Option<AnyEnd>, Option<AnyEnd>) = (None, None);
        let mut cur = 0usize;
        let mut switches = 0usize;
        let mut overlapped = false;
        let mut stepped = [false, false];
        loop {
            let active = [ra.is_none(), rb.is_none()];
            if !active[0] && !active[1] {
                break;
            }
            if active[0] && active[1] {
                if stepped[0] && stepped[1] {
                    overlapped = true;
                }
                if switches < switch_bound {
                    // 0 = the current run continues, 1 = the other run acts next
                    if ch.borrow_mut().choose(2, 0) == 1 {
                        cur = 1 - cur;
                        switches += 1;
                    }
                }
            } else if !active[cur] {
                cur = 1 - cur;
            }
            stepped[cur] = true;
            // a panic inside one run is that run's result (and must happen alone as well)
            let r = if cur == 0 { catch_quiet(|| da.step()) } else { catch_quiet(|| db.step()) };
            let is_s = matches!(if cur == 0 { &da } else { &db }, AnyDriver::S(_));
            let r = match r {
                Ok(r) => r,
                Err(m) => Some(if is_s { AnyEnd::S(DriveRes { status: Status::Panic(m), out: None, polls: 0, states: vec![] }) } else { AnyEnd::C(Status::Panic(m), None) }),
            };
            if cur == 0 {
                ra = r;
            } else {
                rb = r;
            }
        }
        let finish = |end: AnyEnd, d: &mut AnyDriver<'_, '_>, sh: &Sh| -> SideRes {
            match (end, d) {
                (AnyEnd::S(dr), _) => {
                    let r = to_runres(dr, sh);
                    SideRes { sig: sig_s(&r), choices: r.taken.iter().map(|t| t.c).collect(), text: format!("{:?} -> {:?} {:?}", r.ev, r.status, r.out) }
                }
                (AnyEnd::C(status, end), AnyDriver::C(cd)) => {
                    let (ev, taken, polls, states) = cd.take_logs();
                    let r = CRes { status, end, ev, taken, polls, states, diverged: false };
                    SideRes { sig: sig_c(&r), choices: r.taken.iter().map(|t| t.c).collect(), text: format!("{:?} -> {:?} {:?}", r.ev, r.status, r.end) }
                }
                _ => unreachable!(),
            }
        };
        let a = finish(ra.unwrap(), &mut da, &sha);
        let b = finish(rb.unwrap(), &mut db, &shb);
        (a, b, switches, overlapped)
    });
    match r {
        Ok((a, b, switches, overlapped)) => {
            let global = ch.borrow().taken.clone();
            if ch.borrow().diverged {
                return Err("replay divergence in pair run".into());
            }
            Ok(PairRes { a, b, global, switches, overlapped })
        }
        Err(m) => Err(m),
    }
}

fn to_runres(d: DriveRes, sh: &Sh) -> RunRes {
    let mut s = sh.borrow_mut();
    RunRes { status: d.status, out: d.out, ev: std::mem::take(&mut s.ev), taken: std::mem::take(&mut s.local), polls: d.polls, states: d.states, diverged: false }
}

fn solo(spec: &Spec, cfg: &AnyCfg, choices: Vec<u16>) -> SideRes {
    let mut gf = build(spec);
    let r = run_any(&mut gf, cfg, choices);
    SideRes { sig: r.sig, choices: r.taken.iter().map(|t| t.c).collect(), text: r.text }
}

fn c20_cfgs(n: usize) -> Vec<AnyCfg> {
    let mut v = vec![];
    for kind in [Kind::ForEach, Kind::TryForEach, Kind::Control, Kind::Fold, Kind::TryFold] {
        let mut c = RunCfg::plain(Api { kind, mutable: false, with: true }, n);
        if matches!(kind, Kind::TryForEach | Kind::TryFold) && n >= 2 {
            c.fail = (0..n).map(|i| i == 1).collect();
        }
        if kind == Kind::Control {
            c.rev = true;
        }
        if kind == Kind::ForEach {
            c.strat = Strat::Finish;
            c.interrupt = true;
        }
        v.push(AnyCfg::S(c));
    }
    let mut c = RunCfg::plain(Api { kind: Kind::ForEach, mutable: false, with: true }, n);
    c.limit = Some(1);
    c.rev = true;
    v.push(AnyCfg::S(c));
    v.push(AnyCfg::C(CCfg::plain(SApi::Stream)));
    let mut s = CCfg::plain(SApi::StreamWithInterruptible);
    s.rev = true;
    s.strat = Strat::Finish;
    s.interrupt = true;
    v.push(AnyCfg::C(s));
    v
}

pub fn run_c20(tier: &str, deadline: Instant, total: &mut Stats, log: &mut Vec<Value>) {
    // (n, switch bound, bound on non-default answers in the whole choice list incl. switches)
    let plans: Vec<(usize, usize, Option<usize>)> = if tier == "thorough" {
        vec![(0, 64, None), (1, 64, None), (2, 4, None), (3, 3, Some(4)), (4, 2, Some(3))]
    } else {
        vec![(0, 64, None), (1, 64, None), (2, 2, None), (3, 2, Some(3))]
    };
    for (n, sb, devb) in plans {
        let specs = shapes_upto(n, n, false);
        let cfgs = c20_cfgs(n);
        let mut items = vec![];
        for s in 0..specs.len() {
            for a in 0..cfgs.len() {
                for b in a..cfgs.len() {
                    items.push((s, a, b));
                }
            }
        }
        let t0 = Instant::now();
        let mut st = Stats::default();
        let (specs, cfgs) = (&specs, &cfgs);
        let capped = par_for(
            items.len(),
            deadline,
            Stats::default,
            |i, local: &mut Stats| {
                let (si, ai, bi) = items[i];
                let spec = &specs[si];
                let (ca, cb) = (&cfgs[ai], &cfgs[bi]);
                local.jobs += 1;
                let mut sigs = std::collections::HashSet::new();
                let mut nontrivial = std::collections::HashSet::new();
                let mut stack: Vec<Vec<u16>> = vec![vec![]];
                let mut cnt = 0u64;
                let detail = |which: &str| json!({"a": ca.json(), "b": cb.json(), "switch_bound": sb, "which": which});
                while let Some(p) = stack.pop() {
                    cnt += 1;
                    if cnt % 256 == 0 && Instant::now() > deadline {
                        local.capped = true;
                        break;
                    }
                    let pl = p.len();
                    let g = build(spec);
                    let pr = match run_pair(&g, ca, cb, p.clone(), sb) {
                        Ok(r) => r,
                        Err(m) => {
                            local.add_viol(ViolRec {
                                prop: 20,
                                msg: format!("two simultaneous runs: panic / divergence outside a step: {m}"),
                                spec: spec.clone(),
                                cfg: JobCfg::H(format!("simultaneous A=[{}] B=[{}]", ca.short(), cb.short()), detail("-")),
                                choices: p.clone(),
                                trace: vec![],
                                result: String::new(),
                            });
                            continue;
                        }
                    };
                    local.execs += 1;
                    local.transitions += (pr.global.len() + 1 - pl.max(1)) as u64;
                    local.max_depth = local.max_depth.max(pr.global.len() as u64);
                    let key: Vec<u16> = pr.global.iter().map(|t| t.c).collect();
                    let base_dev = crate::exec::deviations(&pr.global[..pl.min(pr.global.len())]);
                    if devb.map(|d| base_dev + 1 <= d).unwrap_or(true) {
                        for i in pl..pr.global.len() {
                            for a in 0..pr.global[i].k {
                                if a != pr.global[i].c {
                                    let mut q = key[..i].to_vec();
                                    q.push(a);
                                    stack.push(q);
                                }
                            }
                        }
                    }
                    let sig = hash64(&(pr.a.sig, pr.b.sig));
                    sigs.insert(sig);
                    if pr.overlapped {
                        nontrivial.insert(sig);
                        local.count("executions_where_both_runs_were_in_progress_at_once", 1);
                    }
                    local.max_deviations = local.max_deviations.max(pr.switches as u64);
                    // differential oracle: each projection replayed alone on a fresh graph
                    for (name, cfg, r) in [("A", ca, &pr.a), ("B", cb, &pr.b)] {
                        let alone = solo(spec, cfg, r.choices.clone());
                        local.recheck += 1;
                        if alone.sig != r.sig {
                            local.add_viol(ViolRec {
                                prop: 20,
                                msg: format!("run {name} behaves differently next to another run than alone under the same environment answers"),
                                spec: spec.clone(),
                                cfg: JobCfg::H(format!("simultaneous A=[{}] B=[{}]", ca.short(), cb.short()), detail(name)),
                                choices: key.clone(),
                                trace: vec![],
                                result: format!("together: {} | alone: {}", r.text, alone.text),
                            });
                        }
                    }
                    if local.samples.len() < 2 && pr.overlapped && pr.switches >= 2 {
                        local.samples.push(json!({"graph": spec.short(), "run_a": ca.short(), "run_b": cb.short(), "choices": key, "trace_a": pr.a.text, "trace_b": pr.b.text}));
                    }
                }
                local.states += sigs.len() as u64;
                local.distinct_traces += sigs.len() as u64;
                local.nontrivial += nontrivial.len() as u64;
            },
            |l| st.merge(l),
        );
        st.capped |= capped;
        let label = format!("n={n}: {} shapes x {} unordered pairs of &self runs (6 future configurations, 2 streams), <= {sb} switches between the runs, {}", specs.len(), cfgs.len() * (cfgs.len() + 1) / 2, match devb { None => "every environment answer of both".to_string(), Some(d) => format!("<= {d} non-default answers (switches included)") });
        log.push(json!({"space": label, "interleavings": st.execs, "completed": !st.capped, "wall_s": t0.elapsed().as_secs_f64()}));
        eprintln!("  [{label}] interleavings={} viol={} {}{:.1}s", st.execs, st.viol_total, if st.capped { "CAPPED " } else { "" }, t0.elapsed().as_secs_f64());
        total.merge(st);
        if Instant::now() > deadline {
            total.capped = true;
            break;
        }
    }
}

#[allow(dead_code)]
fn _unused(_: Status) {}

// ---------------------------------------------------------------------------
// replay of recorded history / simultaneous-run violations

fn any_from_json(v: &Value) -> Option<AnyCfg> {
    match v["engine"].as_str()? {
        "S" => serde_json::from_value(v["cfg"].clone()).ok().map(AnyCfg::S),
        "C" => serde_json::from_value(v["cfg"].clone()).ok().map(AnyCfg::C),
        _ => None,
    }
}

/// Returns 1 if the recorded violation reproduces, 0 if not, 2 on malformed input.
pub fn replay_h(prop: u8, spec: &Spec, detail: &Value, choices: &[u16]) -> i32 {
    match prop {
        15 => {
            let (Some(first), Some(second)) = (any_from_json(&detail["first"]), any_from_json(&detail["second"])) else {
                eprintln!("malformed C15 record");
                return 2;
            };
            let first_choices: Vec<u16> = serde_json::from_value(detail["first_choices"].clone()).unwrap_or_default();
            let second_choices: Vec<u16> = serde_json::from_value(detail["second_choices"].clone()).unwrap_or_default();
            let mut g = build(spec);
            let r1 = run_any(&mut g, &first, first_choices);
            println!("first run on the graph : {}", r1.text);
            let r2 = run_any(&mut g, &second, second_choices.clone());
            println!("second run, same graph : {}", r2.text);
            let mut gf = build(spec);
            let rf = run_any(&mut gf, &second, second_choices);
            println!("second run, fresh graph: {}", rf.text);
            if r2.sig != rf.sig {
                println!("REPRODUCED C15: the run on the reused graph differs from the run on a fresh graph");
                1
            } else {
                println!("the recorded violation does NOT reproduce on the current tree");
                0
            }
        }
        20 => {
            let (Some(ca), Some(cb)) = (any_from_json(&detail["a"]), any_from_json(&detail["b"])) else {
                eprintln!("malformed C20 record");
                return 2;
            };
            let sb = detail["switch_bound"].as_u64().unwrap_or(64) as usize;
            let g = build(spec);
            match run_pair(&g, &ca, &cb, choices.to_vec(), sb) {
                Err(m) => {
                    println!("REPRODUCED C20: {m}");
                    1
                }
                Ok(pr) => {
                    let mut bad = false;
                    for (name, cfg, r) in [("A", &ca, &pr.a), ("B", &cb, &pr.b)] {
                        let alone = solo(spec, cfg, r.choices.clone());
                        println!("run {name} next to the other run: {}", r.text);
                        println!("run {name} alone, same answers   : {}", alone.text);
                        if alone.sig != r.sig {
                            bad = true;
                        }
                    }
                    if bad {
                        println!("REPRODUCED C20: a run behaves differently next to another run than alone");
                        1
                    } else {
                        println!("the recorded violation does NOT reproduce on the current tree");
                        0
                    }
                }
            }
        }
        _ => 2,
    }
}
