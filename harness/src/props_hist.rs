//! Histories of runs on one graph value (C15) and simultaneous runs on one
//! shared graph (C20). Both use a differential oracle: the run under test must
//! be indistinguishable from the same choices replayed alone on a fresh graph.
use std::{future::Future, ops::ControlFlow, pin::Pin, time::Instant};

use fn_graph::{FnGraph, StreamOutcome};
use futures::FutureExt;
use crate::ishim::{mk_state, InterruptSignal};
use serde_json::{json, Value};
use tokio::sync::mpsc;

use crate::{
    engine_c::{run_c, CCfg, CRes, SApi},
    engine_s::{run_on, Api, Driver, DriveRes, Kind, Out, RunCfg, RunRes, Status, Strat},
    exec::{catch_quiet, start, Chooser, ChooserRef, Sh, Shared, Taken},
    explore::{hash64, par_for, JobCfg, Stats, ViolRec},
    graphs::{build, Spec},
    node::Node,
    props_run::shapes_upto,
};

#[derive(Clone, Debug)]
enum AnyCfg {
    S(RunCfg),
    C(CCfg),
}

impl AnyCfg {
    fn short(&self) -> String {
        match self {
            AnyCfg::S(c) => c.short(),
            AnyCfg::C(c) => c.short(),
        }
    }
    fn json(&self) -> Value {
        match self {
            AnyCfg::S(c) => json!({"engine": "S", "cfg": c}),
            AnyCfg::C(c) => json!({"engine": "C", "cfg": c}),
        }
    }
}

fn sig_s(r: &RunRes) -> u64 {
    hash64(&(&r.ev, format!("{:?}{:?}", r.status, r.out), r.taken.iter().map(|t| (t.c, t.k)).collect::<Vec<_>>(), r.diverged))
}

fn sig_c(r: &CRes) -> u64 {
    hash64(&(&r.ev, format!("{:?}{:?}", r.status, r.end), r.taken.iter().map(|t| (t.c, t.k)).collect::<Vec<_>>(), r.diverged))
}

struct AnyRes {
    sig: u64,
    taken: Vec<Taken>,
    text: String,
}

fn run_any(g: &mut FnGraph<Node>, cfg: &AnyCfg, prefix: Vec<u16>) -> AnyRes {
    match cfg {
        AnyCfg::S(c) => {
            let r = run_on(g, c, prefix);
            AnyRes { sig: sig_s(&r), text: format!("{:?} -> {:?} {:?}", r.ev, r.status, r.out), taken: r.taken }
        }
        AnyCfg::C(c) => {
            let r = run_c(g, c, prefix);
            AnyRes { sig: sig_c(&r), text: format!("{:?} -> {:?} {:?}", r.ev, r.status, r.end), taken: r.taken }
        }
    }
}

/// Enumerates the full DFS tree of `cfg` on fresh graphs: (choices, signature) per execution,
/// plus the prefix length at which each execution was first reached.
fn full_tree(spec: &Spec, cfg: &AnyCfg) -> Vec<(Vec<u16>, usize, u64)> {
    let mut out = vec![];
    let mut stack: Vec<Vec<u16>> = vec![vec![]];
    while let Some(p) = stack.pop() {
        let pl = p.len();
        let mut g = build(spec);
        let r = run_any(&mut g, cfg, p);
        let key: Vec<u16> = r.taken.iter().map(|t| t.c).collect();
        for i in pl..r.taken.len() {
            for a in 0..r.taken[i].k {
                if a != r.taken[i].c {
                    let mut q = key[..i].to_vec();
                    q.push(a);
                    stack.push(q);
                }
            }
        }
        out.push((key, pl, r.sig));
    }
    out
}

/// In the default-feature harness build (no interruption in fn_graph's API) configurations that
/// ask for interruption are replaced by their uninterrupted counterparts; duplicates removed.
fn ni_adapt(v: Vec<AnyCfg>) -> Vec<AnyCfg> {
    if !crate::ishim::DEFAULT_FEATURES_BUILD {
        return v;
    }
    let mut out: Vec<AnyCfg> = vec![];
    for c in v {
        let c = match c {
            AnyCfg::S(mut c) => {
                c.strat = Strat::Non;
                c.interrupt = false;
                c.include = true;
                c.opts_order = 0;
                AnyCfg::S(c)
            }
            AnyCfg::C(mut c) => {
                c.strat = Strat::Non;
                c.interrupt = false;
                c.include = true;
                c.opts_order = 0;
                c.api = match c.api {
                    SApi::StreamInterruptible => SApi::Stream,
                    SApi::StreamWithInterruptible => SApi::StreamWith,
                    a => a,
                };
                AnyCfg::C(c)
            }
        };
        if !out.iter().any(|o| o.json() == c.json()) {
            out.push(c);
        }
    }
    out
}

fn first_cfgs(n: usize) -> Vec<AnyCfg> {
    let mut v = vec![];
    let fail: Vec<bool> = (0..n).map(|i| i == 1).collect();
    for api in Api::all_with() {
        let mut c = RunCfg::plain(api, n);
        c.strat = Strat::Finish;
        c.interrupt = true;
        if api.is_try() {
            c.fail = fail.clone();
        }
        v.push(AnyCfg::S(c));
    }
    let mut c = RunCfg::plain(Api { kind: Kind::ForEach, mutable: true, with: true }, n);
    c.rev = true;
    c.limit = Some(1);
    v.push(AnyCfg::S(c));
    let mut c = RunCfg::plain(Api { kind: Kind::TryForEach, mutable: true, with: false }, n);
    c.fail = (0..n).map(|i| i == 0).collect();
    v.push(AnyCfg::S(c));
    let mut s = CCfg::plain(SApi::StreamWith);
    s.drop_stream = true;
    v.push(AnyCfg::C(s.clone()));
    s.rev = true;
    v.push(AnyCfg::C(s));
    let mut s = CCfg::plain(SApi::StreamWithInterruptible);
    s.strat = Strat::Finish;
    s.interrupt = true;
    s.drop_stream = true;
    v.push(AnyCfg::C(s));
    ni_adapt(v)
}

fn second_cfgs(n: usize) -> Vec<AnyCfg> {
    let mut v = vec![];
    // all 10 `_with` methods: a scratch buffer kept by one method family only shows when the
    // second run uses that family
    for (kind, mutable) in [
        (Kind::ForEach, true),
        (Kind::TryForEach, true),
        (Kind::Fold, true),
        (Kind::ForEach, false),
        (Kind::TryFold, false),
        (Kind::Control, true),
        (Kind::TryFold, true),
        (Kind::Fold, false),
        (Kind::TryForEach, false),
        (Kind::Control, false),
    ] {
        let mut c = RunCfg::plain(Api { kind, mutable, with: true }, n);
        if kind == Kind::TryFold {
            c.fail = (0..n).map(|i| i == 1).collect();
        }
        if kind == Kind::ForEach && !mutable {
            c.rev = true;
        }
        v.push(AnyCfg::S(c));
    }
    let mut c = RunCfg::plain(Api { kind: Kind::TryForEach, mutable: true, with: true }, n);
    c.rev = true;
    v.push(AnyCfg::S(c));
    v.push(AnyCfg::C(CCfg::plain(SApi::Stream)));
    let mut s = CCfg::plain(SApi::StreamWith);
    s.rev = true;
    v.push(AnyCfg::C(s));
    ni_adapt(v)
}

/// DFS tree of `cfg` on fresh graphs with at most `dev` non-default answers.
fn tree_dev(spec: &Spec, cfg: &AnyCfg, dev: usize) -> Vec<(Vec<u16>, u64)> {
    let mut out = vec![];
    let mut stack: Vec<Vec<u16>> = vec![vec![]];
    while let Some(p) = stack.pop() {
        let pl = p.len();
        let mut g = build(spec);
        let r = run_any(&mut g, cfg, p);
        let key: Vec<u16> = r.taken.iter().map(|t| t.c).collect();
        if crate::exec::deviations(&r.taken[..pl.min(r.taken.len())]) + 1 <= dev {
            for i in pl..r.taken.len() {
                for a in 0..r.taken[i].k {
                    if a != r.taken[i].c {
                        let mut q = key[..i].to_vec();
                        q.push(a);
                        stack.push(q);
                    }
                }
            }
        }
        out.push((key, r.sig));
    }
    out
}

/// Histories on larger graphs (size thresholds): every first run on its default schedule,
/// completed or dropped at a quarter / half / three quarters of its choices, then every second
/// run with <= 1 deviation, compared with a fresh graph.
fn run_c15_large(tier: &str, deadline: Instant, total: &mut Stats, log: &mut Vec<Value>) {
    use crate::graphs::{family_spec, Family};
    let ks: &[usize] = if tier == "thorough" { &[7, 9, 12, 17, 24, 33, 40, 65] } else { &[9, 17, 33] };
    let mut specs = vec![];
    for &k in ks {
        specs.push(family_spec(Family::Chain, k));
        specs.push(family_spec(Family::Comb, k / 2));
        specs.push(family_spec(Family::FanPair, k / 2));
        specs.push(family_spec(Family::BinTree, k));
    }
    specs.extend(crate::props_build::arithmetic_specs(if tier == "thorough" { &[9, 10, 12, 20] } else { &[9, 12] }, false).into_iter().map(|(_, s)| s).step_by(7));
    let mut items = vec![];
    for s in 0..specs.len() {
        let nf = first_cfgs(specs[s].n).len();
        for a in 0..nf {
            items.push((s, a));
        }
    }
    let t0 = Instant::now();
    let mut st = Stats::default();
    let specs_ref = &specs;
    let capped = par_for(
        items.len(),
        deadline,
        Stats::default,
        |i, local: &mut Stats| {
            let (si, ai) = items[i];
            let spec = &specs_ref[si];
            let n = spec.n;
            let mut firsts = first_cfgs(n);
            let c1 = firsts.swap_remove(ai);
            // the stream configurations of the first-run menu explore every drop point; on large
            // graphs they follow their default behaviour only
            let c1 = match c1 {
                AnyCfg::S(mut c) => {
                    c.imm_choice = false;
                    AnyCfg::S(c)
                }
                AnyCfg::C(mut c) => {
                    c.drop_stream = false;
                    AnyCfg::C(c)
                }
            };
            let seconds: Vec<AnyCfg> = second_cfgs(n)
                .into_iter()
                .map(|c| match c {
                    AnyCfg::S(mut c) => {
                        c.imm_choice = false;
                        AnyCfg::S(c)
                    }
                    o => o,
                })
                .collect();
            local.jobs += 1;
            // length of the first run's default choice list
            let len1 = {
                let mut g = build(spec);
                run_any(&mut g, &c1, vec![]).taken.len()
            };
            let aborts: Vec<Option<usize>> = match &c1 {
                AnyCfg::S(_) => vec![None, Some(len1 / 4), Some(len1 / 2), Some(3 * len1 / 4)],
                AnyCfg::C(_) => vec![None],
            };
            for c2 in &seconds {
                let ref2 = tree_dev(spec, c2, if n <= 20 { 1 } else { 0 });
                for &abort in &aborts {
                    if Instant::now() > deadline {
                        local.capped = true;
                        return;
                    }
                    let c1a = match &c1 {
                        AnyCfg::S(c) => {
                            let mut c = c.clone();
                            c.abort_at = abort;
                            AnyCfg::S(c)
                        }
                        o => o.clone(),
                    };
                    let mut g = build(spec);
                    let r1 = run_any(&mut g, &c1a, vec![]);
                    local.transitions += r1.taken.len() as u64;
                    for (key2, want) in &ref2 {
                        let r2 = run_any(&mut g, c2, key2.clone());
                        local.execs += 1;
                        local.transitions += r2.taken.len() as u64;
                        if r2.sig != *want {
                            let mut gf = build(spec);
                            let fresh = run_any(&mut gf, c2, key2.clone());
                            local.add_viol(ViolRec {
                                prop: 15,
                                msg: format!("run on a reused graph differs from the same run on a fresh graph (earlier run: {} aborted at {:?})", c1.short(), abort),
                                spec: spec.clone(),
                                cfg: JobCfg::H(
                                    format!("history first=[{}] second=[{}]", c1.short(), c2.short()),
                                    json!({"first": c1a.json(), "first_choices": Vec::<u16>::new(), "first_abort_at": abort, "second": c2.json(), "second_choices": key2}),
                                ),
                                choices: key2.clone(),
                                trace: vec![],
                                result: format!("reused: {} | fresh: {}", &r2.text[..r2.text.len().min(600)], &fresh.text[..fresh.text.len().min(600)]),
                            });
                            break;
                        }
                    }
                }
            }
            local.states += 1;
            local.distinct_traces += 1;
            local.nontrivial += 1;
        },
        |l| st.merge(l),
    );
    st.capped |= capped;
    let label = format!("larger graphs (chains, combs, two-depth fans, trees for k in {ks:?}, arithmetic DAGs): {} graphs x 15 first runs on their default schedule (completed, or dropped at 1/4, 1/2, 3/4) x 9 second runs (<= 1 deviation up to 20 functions)", specs.len());
    log.push(json!({"space": label, "pairs_compared": st.execs, "completed": !st.capped, "wall_s": t0.elapsed().as_secs_f64()}));
    eprintln!("  [{label}] pairs={} viol={} {}{:.1}s", st.execs, st.viol_total, if st.capped { "CAPPED " } else { "" }, t0.elapsed().as_secs_f64());
    total.merge(st);
}

pub fn run_c15(tier: &str, deadline: Instant, total: &mut Stats, log: &mut Vec<Value>) {
    let nmax = if tier == "thorough" { 3 } else { 2 };
    for n in 0..=nmax {
        let specs = shapes_upto(n, n, tier == "thorough" && n <= 2);
        let mut firsts = first_cfgs(n);
        let mut seconds = second_cfgs(n);
        if tier == "thorough" {
            // more histories: plain (non-_with) methods, PollNextN, IgnoreInterruptions, limits
            for api in Api::all_plain() {
                let mut c = RunCfg::plain(api, n);
                if api.is_try() {
                    c.fail = (0..n).map(|i| i + 1 == n).collect();
                }
                firsts.push(AnyCfg::S(c));
            }
            for (kind, strat) in [(Kind::ForEach, Strat::NextN(1)), (Kind::Fold, Strat::NextN(1)), (Kind::TryForEach, Strat::Ignore)] {
                let mut c = RunCfg::plain(Api { kind, mutable: true, with: true }, n);
                c.strat = strat;
                c.interrupt = true;
                c.include = false;
                c.rev = true;
                firsts.push(AnyCfg::S(c));
            }
            let mut c = RunCfg::plain(Api { kind: Kind::ForEach, mutable: false, with: true }, n);
            c.limit = Some(1);
            seconds.push(AnyCfg::S(c));
            let mut c = RunCfg::plain(Api { kind: Kind::TryForEach, mutable: false, with: true }, n);
            c.rev = true;
            c.strat = Strat::Finish;
            c.interrupt = true;
            seconds.push(AnyCfg::S(c));
            let mut s2 = CCfg::plain(SApi::StreamWithInterruptible);
            s2.strat = Strat::NextN(1);
            s2.interrupt = true;
            seconds.push(AnyCfg::C(s2));
        }
        let firsts = ni_adapt(firsts);
        let seconds = ni_adapt(seconds);
        let mut items: Vec<(usize, usize, usize)> = vec![];
        for s in 0..specs.len() {
            for a in 0..firsts.len() {
                for b in 0..seconds.len() {
                    items.push((s, a, b));
                }
            }
        }
        let t0 = Instant::now();
        let mut st = Stats::default();
        let (specs, firsts, seconds) = (&specs, &firsts, &seconds);
        let capped = par_for(
            items.len(),
            deadline,
            Stats::default,
            |i, local: &mut Stats| {
                let (si, ai, bi) = items[i];
                let spec = &specs[si];
                let (c1, c2) = (&firsts[ai], &seconds[bi]);
                let ref2 = full_tree(spec, c2);
                let tree1 = full_tree(spec, c1);
                local.jobs += 1;
                let mut sigs = std::collections::HashSet::new();
                for (key1, pl, _) in &tree1 {
                    // abort points: every node of the DFS tree that this execution reaches first
                    let aborts: Vec<Option<usize>> = match c1 {
                        AnyCfg::S(_) => (*pl..=key1.len()).map(Some).chain([None]).collect(),
                        AnyCfg::C(_) => vec![None],
                    };
                    for abort in aborts {
                        if Instant::now() > deadline {
                            local.capped = true;
                            return;
                        }
                        let mut g = build(spec);
                        let c1a = match c1 {
                            AnyCfg::S(c) => {
                                let mut c = c.clone();
                                c.abort_at = abort;
                                AnyCfg::S(c)
                            }
                            other => other.clone(),
                        };
                        let r1 = run_any(&mut g, &c1a, key1.clone());
                        local.transitions += r1.taken.len() as u64;
                        sigs.insert(r1.sig);
                        for (key2, _, want) in &ref2 {
                            let r2 = run_any(&mut g, c2, key2.clone());
                            local.execs += 1;
                            local.transitions += r2.taken.len() as u64;
                            if r2.sig != *want {
                                let mut gf = build(spec);
                                let fresh = run_any(&mut gf, c2, key2.clone());
                                local.add_viol(ViolRec {
                                    prop: 15,
                                    msg: format!("run on a reused graph differs from the same run on a fresh graph (earlier run: {} aborted at {:?})", c1.short(), abort),
                                    spec: spec.clone(),
                                    cfg: JobCfg::H(
                                        format!("history first=[{}] second=[{}]", c1.short(), c2.short()),
                                        json!({"first": c1a.json(), "first_choices": key1, "first_abort_at": abort, "second": c2.json(), "second_choices": key2}),
                                    ),
                                    choices: key2.clone(),
                                    trace: vec![],
                                    result: format!("reused: {} | fresh: {}", r2.text, fresh.text),
                                });
                            }
                        }
                        if local.samples.len() < 2 && abort.is_some() && r1.taken.len() >= 2 && spec.n >= 2 {
                            local.samples.push(json!({"graph": spec.short(), "first_run": c1.short(), "first_choices": key1, "aborted_at_choice": abort, "second_run": c2.short(), "second_run_executions_compared": ref2.len()}));
                        }
                    }
                }
                local.states += sigs.len() as u64;
                local.distinct_traces += sigs.len() as u64;
                local.nontrivial += sigs.len().saturating_sub(1) as u64;
                local.count("first_run_nodes_used_as_history", tree1.len() as u64);
            },
            |l| st.merge(l),
        );
        st.capped |= capped;
        let label = format!("n={n}: {} shapes x {} first runs (every abort point / every consumer behaviour incl. dropping the stream) x {} second runs (full DFS each)", specs.len(), firsts.len(), seconds.len());
        log.push(json!({"space": label, "pairs_compared": st.execs, "completed": !st.capped, "wall_s": t0.elapsed().as_secs_f64()}));
        eprintln!("  [{label}] pairs={} viol={} {}{:.1}s", st.execs, st.viol_total, if st.capped { "CAPPED " } else { "" }, t0.elapsed().as_secs_f64());
        total.merge(st);
        if Instant::now() > deadline {
            total.capped = true;
            return;
        }
    }
    run_c15_large(tier, deadline, total, log);
}

// ---------------------------------------------------------------------------
// C20: two runs on one shared graph, interleaved by one explorer

type BoxFut<'a> = Pin<Box<dyn Future<Output = Out> + 'a>>;

fn so_out<T>(ok: bool, so: StreamOutcome<T>, errors: Vec<usize>, seed: impl FnOnce(T) -> Vec<usize>) -> Out {
    Out {
        ok,
        has_outcome: true,
        // fields and accessor methods must tell the same story
        state: if so.state() == so.state { format!("{:?}", so.state) } else { format!("{:?} (field) but state() = {:?}", so.state, so.state()) },
        processed: if so.fn_ids_processed() == so.fn_ids_processed.as_slice() { so.fn_ids_processed.iter().map(|i| i.index()).collect() } else { so.fn_ids_processed().iter().map(|i| i.index()).chain([usize::MAX]).collect() },
        not_processed: if so.fn_ids_not_processed() == so.fn_ids_not_processed.as_slice() { so.fn_ids_not_processed.iter().map(|i| i.index()).collect() } else { so.fn_ids_not_processed().iter().map(|i| i.index()).chain([usize::MAX]).collect() },
        errors,
        seed: seed(so.value),
    }
}

/// The `&self` streaming methods as boxed futures (so that two can be alive at once).
fn shared_fut<'a>(g: &'a FnGraph<Node>, cfg: &RunCfg, sh: &Sh, irx: &'a mut mpsc::Receiver<InterruptSignal>) -> BoxFut<'a> {
    let state = mk_state(cfg.strat, irx);
    let opts = crate::engine_s::build_opts(cfg.opts_order, state, cfg.include, cfg.rev);
    let limit = cfg.limit;
    let sh2 = sh.clone();
    let unit = |()| Vec::<usize>::new();
    assert!(!cfg.api.mutable && cfg.api.with);
    match cfg.api.kind {
        Kind::ForEach => {
            let f = move |nd: &Node| start(&sh2, nd.id).map(|_| ());
            Box::pin(g.for_each_concurrent_with(limit, opts, f).map(move |so| so_out(true, so, vec![], unit)))
        }
        Kind::TryForEach => {
            let f = move |nd: &Node| {
                let id = nd.id;
                start(&sh2, id).map(move |ok| if ok { Ok(()) } else { Err(id) })
            };
            Box::pin(g.try_for_each_concurrent_with(limit, opts, f).map(move |r| match r {
                Ok(so) => so_out(true, so, vec![], unit),
                Err((so, es)) => so_out(false, so, es, unit),
            }))
        }
        Kind::Control => {
            let f = move |nd: &Node| {
                let id = nd.id;
                start(&sh2, id).map(move |ok| if ok { ControlFlow::Continue(()) } else { ControlFlow::Break(id) })
            };
            Box::pin(g.try_for_each_concurrent_control_with(limit, opts, f).map(move |r| match r {
                ControlFlow::Continue(so) => so_out(true, so, vec![], unit),
                ControlFlow::Break((so, es)) => so_out(false, so, es, unit),
            }))
        }
        Kind::Fold => Box::pin(g.fold_async_with(Vec::<usize>::new(), opts, crate::fold_closure!(sh2)).map(|so| so_out(true, so, vec![], |v| v))),
        Kind::TryFold => Box::pin(g.try_fold_async_with(Vec::<usize>::new(), opts, crate::try_fold_closure!(sh2)).map(|r: Result<StreamOutcome<Vec<usize>>, usize>| match r {
            Ok(so) => so_out(true, so, vec![], |v| v),
            Err(e) => Out { ok: false, has_outcome: false, errors: vec![e], ..Default::default() },
        })),
    }
}

struct SideRes {
    sig: u64,
    choices: Vec<u16>,
    text: String,
}

struct MultiRes {
    sides: Vec<SideRes>,
    /// positions in `global` of the "which run acts next" choices
    top: Vec<usize>,
    global: Vec<Taken>,
    switches: usize,
    overlapped: bool,
}

enum AnyDriver<'a, 'f> {
    S(Driver<'a, BoxFut<'f>>),
    C(crate::engine_c::CDriver<'f>),
}

enum AnyEnd {
    S(DriveRes),
    C(Status, Option<crate::engine_c::CEnd>),
}

impl AnyDriver<'_, '_> {
    fn step(&mut self) -> Option<AnyEnd> {
        match self {
            AnyDriver::S(d) => d.step().map(AnyEnd::S),
            AnyDriver::C(d) => d.step().map(|(s, e)| AnyEnd::C(s, e)),
        }
    }
}

/// Runs several calls on one `&FnGraph`; all decisions (which run acts next, and each run's own
/// environment answers) are drawn from one choice list. A run starts when it is first chosen.
fn run_multi(g: &FnGraph<Node>, cfgs: &[&AnyCfg], prefix: Vec<u16>, switch_bound: usize) -> Result<MultiRes, String> {
    let n = g.graph.node_count();
    let k = cfgs.len();
    let ch: ChooserRef = Chooser::shared(prefix);
    let shs: Vec<Sh> = cfgs
        .iter()
        .map(|c| {
            let (mut fail, imm) = match c {
                AnyCfg::S(c) => (c.fail.clone(), c.imm_choice),
                AnyCfg::C(_) => (vec![], false),
            };
            fail.resize(n, false);
            Shared::new(n, fail, ch.clone(), imm, false)
        })
        .collect();
    // one interrupt channel per run and per engine kind (only one of each pair is used)
    let mut chan_s: Vec<(mpsc::Sender<InterruptSignal>, mpsc::Receiver<InterruptSignal>)> = (0..k).map(|_| mpsc::channel(4)).collect();
    let mut chan_c: Vec<(mpsc::Sender<InterruptSignal>, mpsc::Receiver<InterruptSignal>)> = (0..k).map(|_| mpsc::channel(4)).collect();
    let senders_s: Vec<mpsc::Sender<InterruptSignal>> = chan_s.iter().map(|c| c.0.clone()).collect();
    let r = catch_quiet(|| {
        let mut futs: Vec<Option<BoxFut<'_>>> = chan_s
            .iter_mut()
            .enumerate()
            .map(|(i, c)| match cfgs[i] {
                AnyCfg::S(cfg) => Some(shared_fut(g, cfg, &shs[i], &mut c.1)),
                AnyCfg::C(_) => None,
            })
            .collect();
        let mut drivers: Vec<AnyDriver<'_, '_>> = futs
            .iter_mut()
            .zip(chan_c.iter_mut())
            .enumerate()
            .map(|(i, (f, cc))| match cfgs[i] {
                AnyCfg::S(cfg) => AnyDriver::S(Driver::new(Pin::new(f.as_mut().unwrap()), &shs[i], cfg, if cfg.strat == Strat::Non { None } else { Some(&senders_s[i]) })),
                AnyCfg::C(cfg) => AnyDriver::C(crate::engine_c::CDriver::new(g, cfg, &mut cc.1, cc.0.clone(), ch.clone())),
            })
            .collect();
        let mut ends: Vec<Option<AnyEnd>> = (0..k).map(|_| None).collect();
        let mut top: Vec<usize> = vec![];
        let mut cur = 0usize;
        let mut switches = 0usize;
        let mut overlapped = false;
        let mut stepped = vec![false; k];
        loop {
            let active: Vec<usize> = (0..k).filter(|&i| ends[i].is_none()).collect();
            if active.is_empty() {
                break;
            }
            if active.iter().filter(|&&i| stepped[i]).count() >= 2 {
                overlapped = true;
            }
            if ends[cur].is_none() {
                let others: Vec<usize> = active.iter().copied().filter(|&i| i != cur).collect();
                if !others.is_empty() && switches < switch_bound {
                    // 0 = the current run continues, j = the j-th other active run acts next
                    top.push(ch.borrow().taken.len());
                    let c = ch.borrow_mut().choose(others.len() + 1, 0);
                    if c > 0 {
                        cur = others[c - 1];
                        switches += 1;
                    }
                }
            } else if active.len() == 1 {
                cur = active[0];
            } else {
                // the current run is over: which of the remaining ones goes on (not a switch)
                // default: the run with the highest index (typically one that has not started yet)
                top.push(ch.borrow().taken.len());
                let c = ch.borrow_mut().choose(active.len(), active.len() - 1);
                cur = active[c];
            }
            stepped[cur] = true;
            // a panic inside one run is that run's result (and must happen alone as well)
            let is_s = matches!(&drivers[cur], AnyDriver::S(_));
            let d = &mut drivers[cur];
            let r = match catch_quiet(|| d.step()) {
                Ok(r) => r,
                Err(m) => Some(if is_s { AnyEnd::S(DriveRes { status: Status::Panic(m), out: None, polls: 0, states: vec![] }) } else { AnyEnd::C(Status::Panic(m), None) }),
            };
            if r.is_some() {
                ends[cur] = r;
            }
        }
        let mut sides = vec![];
        for i in 0..k {
            let side = match (ends[i].take().unwrap(), &mut drivers[i]) {
                (AnyEnd::S(dr), _) => {
                    let r = to_runres(dr, &shs[i]);
                    SideRes { sig: sig_s(&r), choices: r.taken.iter().map(|t| t.c).collect(), text: format!("{:?} -> {:?} {:?}", r.ev, r.status, r.out) }
                }
                (AnyEnd::C(status, end), AnyDriver::C(cd)) => {
                    let (ev, taken, polls, states) = cd.take_logs();
                    let r = CRes { status, end, ev, taken, polls, states, diverged: false };
                    SideRes { sig: sig_c(&r), choices: r.taken.iter().map(|t| t.c).collect(), text: format!("{:?} -> {:?} {:?}", r.ev, r.status, r.end) }
                }
                _ => unreachable!(),
            };
            sides.push(side);
        }
        (sides, switches, overlapped, top)
    });
    match r {
        Ok((sides, switches, overlapped, top)) => {
            let global = ch.borrow().taken.clone();
            if ch.borrow().diverged {
                return Err("replay divergence in a simultaneous run".into());
            }
            Ok(MultiRes { sides, top, global, switches, overlapped })
        }
        Err(m) => Err(m),
    }
}

fn to_runres(d: DriveRes, sh: &Sh) -> RunRes {
    let mut s = sh.borrow_mut();
    RunRes { status: d.status, out: d.out, ev: std::mem::take(&mut s.ev), taken: std::mem::take(&mut s.local), polls: d.polls, states: d.states, diverged: false, nested: vec![] }
}

fn solo(spec: &Spec, cfg: &AnyCfg, choices: Vec<u16>) -> SideRes {
    let mut gf = build(spec);
    let r = run_any(&mut gf, cfg, choices);
    SideRes { sig: r.sig, choices: r.taken.iter().map(|t| t.c).collect(), text: r.text }
}

fn c20_cfgs(n: usize) -> Vec<AnyCfg> {
    let mut v = vec![];
    for kind in [Kind::ForEach, Kind::TryForEach, Kind::Control, Kind::Fold, Kind::TryFold] {
        let mut c = RunCfg::plain(Api { kind, mutable: false, with: true }, n);
        if matches!(kind, Kind::TryForEach | Kind::TryFold) && n >= 2 {
            c.fail = (0..n).map(|i| i == 1).collect();
        }
        if kind == Kind::Control {
            c.rev = true;
        }
        if kind == Kind::ForEach {
            c.strat = Strat::Finish;
            c.interrupt = true;
        }
        v.push(AnyCfg::S(c));
    }
    let mut c = RunCfg::plain(Api { kind: Kind::ForEach, mutable: false, with: true }, n);
    c.limit = Some(1);
    c.rev = true;
    v.push(AnyCfg::S(c));
    v.push(AnyCfg::C(CCfg::plain(SApi::Stream)));
    let mut s = CCfg::plain(SApi::StreamWithInterruptible);
    s.rev = true;
    s.strat = Strat::Finish;
    s.interrupt = true;
    v.push(AnyCfg::C(s));
    ni_adapt(v)
}

/// One set of simultaneous runs: full DFS over the shared choice list within the bounds,
/// differential oracle per run.
fn explore_multi(spec: &Spec, cfgs: &[&AnyCfg], sb: usize, devb: Option<usize>, inner_dev: bool, deadline: Instant, local: &mut Stats) {
    local.jobs += 1;
    let mut sigs = std::collections::HashSet::new();
    let mut nontrivial = std::collections::HashSet::new();
    let mut stack: Vec<Vec<u16>> = vec![vec![]];
    let mut cnt = 0u64;
    let names: Vec<String> = cfgs.iter().map(|c| c.short()).collect();
    let title = format!("simultaneous {}", names.iter().enumerate().map(|(i, n)| format!("{}=[{n}]", (b'A' + i as u8) as char)).collect::<Vec<_>>().join(" "));
    let detail = |which: &str| json!({"runs": cfgs.iter().map(|c| c.json()).collect::<Vec<_>>(), "switch_bound": sb, "which": which});
    let template = if spec.n > 8 { Some(build(spec)) } else { None };
    while let Some(p) = stack.pop() {
        cnt += 1;
        if cnt % 64 == 0 && Instant::now() > deadline {
            local.capped = true;
            break;
        }
        let pl = p.len();
        let g = template.as_ref().map(|t| t.clone()).unwrap_or_else(|| build(spec));
        let mr = match run_multi(&g, cfgs, p.clone(), sb) {
            Ok(r) => r,
            Err(m) => {
                local.add_viol(ViolRec {
                    prop: 20,
                    msg: format!("simultaneous runs: panic / divergence outside a step: {m}"),
                    spec: spec.clone(),
                    cfg: JobCfg::H(title.clone(), detail("-")),
                    choices: p.clone(),
                    trace: vec![],
                    result: String::new(),
                });
                continue;
            }
        };
        local.execs += 1;
        local.transitions += (mr.global.len() + 1 - pl.max(1)) as u64;
        local.max_depth = local.max_depth.max(mr.global.len() as u64);
        let key: Vec<u16> = mr.global.iter().map(|t| t.c).collect();
        let base_dev = crate::exec::deviations(&mr.global[..pl.min(mr.global.len())]);
        if devb.map(|d| base_dev + 1 <= d).unwrap_or(true) {
            for i in pl..mr.global.len() {
                if !inner_dev && !mr.top.contains(&i) {
                    continue;
                }
                for a in 0..mr.global[i].k {
                    if a != mr.global[i].c {
                        let mut q = key[..i].to_vec();
                        q.push(a);
                        stack.push(q);
                    }
                }
            }
        }
        let sig = hash64(&mr.sides.iter().map(|s| s.sig).collect::<Vec<_>>());
        sigs.insert(sig);
        if mr.overlapped {
            nontrivial.insert(sig);
            local.count("executions_where_two_or_more_runs_were_in_progress_at_once", 1);
        }
        local.max_deviations = local.max_deviations.max(mr.switches as u64);
        // differential oracle: each projection replayed alone on a fresh graph
        for (i, r) in mr.sides.iter().enumerate() {
            let alone = solo(spec, cfgs[i], r.choices.clone());
            local.recheck += 1;
            if alone.sig != r.sig {
                let name = ((b'A' + i as u8) as char).to_string();
                local.add_viol(ViolRec {
                    prop: 20,
                    msg: format!("run {name} behaves differently next to another run than alone under the same environment answers"),
                    spec: spec.clone(),
                    cfg: JobCfg::H(title.clone(), detail(&name)),
                    choices: key.clone(),
                    trace: vec![],
                    result: format!("together: {} | alone: {}", r.text, alone.text),
                });
            }
        }
        if local.samples.len() < 2 && mr.overlapped && mr.switches >= 2 && spec.n >= 2 && spec.n <= 4 {
            local.samples.push(json!({"graph": spec.short(), "runs": names, "choices": key, "traces": mr.sides.iter().map(|s| s.text.clone()).collect::<Vec<_>>()}));
        }
    }
    local.states += sigs.len() as u64;
    local.distinct_traces += sigs.len() as u64;
    local.nontrivial += nontrivial.len() as u64;
}

pub fn run_c20(tier: &str, deadline: Instant, total: &mut Stats, log: &mut Vec<Value>) {
    // (n, switch bound, bound on non-default answers in the whole choice list incl. switches)
    let plans: Vec<(usize, usize, Option<usize>)> = if tier == "thorough" {
        vec![(0, 64, None), (1, 64, None), (2, 4, None), (3, 3, Some(4)), (4, 2, Some(3))]
    } else {
        vec![(0, 64, None), (1, 64, None), (2, 2, None), (3, 2, Some(3))]
    };
    for (n, sb, devb) in plans {
        let specs = shapes_upto(n, n, false);
        let cfgs = c20_cfgs(n);
        let mut items = vec![];
        for s in 0..specs.len() {
            for a in 0..cfgs.len() {
                for b in a..cfgs.len() {
                    items.push((s, a, b));
                }
            }
        }
        let t0 = Instant::now();
        let mut st = Stats::default();
        let (specs, cfgs) = (&specs, &cfgs);
        let capped = par_for(
            items.len(),
            deadline,
            Stats::default,
            |i, local: &mut Stats| {
                let (si, ai, bi) = items[i];
                explore_multi(&specs[si], &[&cfgs[ai], &cfgs[bi]], sb, devb, true, deadline, local);
            },
            |l| st.merge(l),
        );
        st.capped |= capped;
        let label = format!("n={n}: {} shapes x {} unordered pairs of &self runs (6 future configurations, 2 streams), <= {sb} switches between the runs, {}", specs.len(), cfgs.len() * (cfgs.len() + 1) / 2, match devb { None => "every environment answer of both".to_string(), Some(d) => format!("<= {d} non-default answers (switches included)") });
        log.push(json!({"space": label, "interleavings": st.execs, "completed": !st.capped, "wall_s": t0.elapsed().as_secs_f64()}));
        eprintln!("  [{label}] interleavings={} viol={} {}{:.1}s", st.execs, st.viol_total, if st.capped { "CAPPED " } else { "" }, t0.elapsed().as_secs_f64());
        total.merge(st);
        if Instant::now() > deadline {
            total.capped = true;
            return;
        }
    }
    // three runs on larger graphs: A starts, another run starts and ends meanwhile, a third starts
    // while A is still in progress (size thresholds, leases, per-graph scratch state)
    {
        use crate::graphs::{family_spec, Family};
        // (functions, switch bound)
        let plans: &[(usize, usize)] = if tier == "thorough" { &[(9, 3), (17, 2), (33, 2), (34, 2), (40, 1), (65, 1), (66, 1), (130, 1)] } else { &[(9, 2), (33, 1), (66, 1)] };
        let ks: Vec<usize> = plans.iter().map(|p| p.0).collect();
        let mut specs = vec![];
        let mut bounds = vec![];
        for &(k, sb) in plans {
            // chains, antichains, combs; and shapes with join nodes (several predecessors): fan-in,
            // two-wide layers, diamonds
            for s in [
                family_spec(Family::Chain, k),
                family_spec(Family::Antichain, k),
                family_spec(Family::Comb, k / 2),
                family_spec(Family::FanIn, k - 1),
                family_spec(Family::Layered(2), k / 2 + 1),
                family_spec(Family::Diamonds, k / 3),
            ] {
                specs.push(s);
                bounds.push(sb);
            }
        }
        let mk = |kind: Kind, n: usize| {
            let mut c = RunCfg::plain(Api { kind, mutable: false, with: true }, n);
            c.imm_choice = false;
            AnyCfg::S(c)
        };
        let mut items = vec![];
        for s in 0..specs.len() {
            for t in 0..3 {
                items.push((s, t));
            }
        }
        let t0 = Instant::now();
        let mut st = Stats::default();
        let specs_ref = &specs;
        let bounds_ref = &bounds;
        let capped = par_for(
            items.len(),
            deadline,
            Stats::default,
            |i, local: &mut Stats| {
                let (si, t) = items[i];
                let spec = &specs_ref[si];
                let n = spec.n;
                let triple: Vec<AnyCfg> = match t {
                    0 => vec![mk(Kind::ForEach, n), mk(Kind::ForEach, n), mk(Kind::ForEach, n)],
                    1 => vec![mk(Kind::Fold, n), mk(Kind::TryForEach, n), mk(Kind::ForEach, n)],
                    _ => vec![mk(Kind::ForEach, n), AnyCfg::C(CCfg::plain(SApi::Stream)), mk(Kind::TryFold, n)],
                };
                let refs: Vec<&AnyCfg> = triple.iter().collect();
                let sb = bounds_ref[si];
                explore_multi(spec, &refs, sb, Some(sb + 1), false, deadline, local);
            },
            |l| st.merge(l),
        );
        st.capped |= capped;
        let label = format!("three simultaneous &self runs on chains, antichains, combs, fan-ins, two-wide layered graphs and diamond chains of about {ks:?} functions: every interleaving with <= {:?} switches respectively, each run on its eager schedule; a run starts when first chosen, a finished run hands over to the not-yet-started one by default", plans.iter().map(|p| p.1).collect::<Vec<_>>());
        log.push(json!({"space": label, "interleavings": st.execs, "completed": !st.capped, "wall_s": t0.elapsed().as_secs_f64()}));
        eprintln!("  [{label}] interleavings={} viol={} {}{:.1}s", st.execs, st.viol_total, if st.capped { "CAPPED " } else { "" }, t0.elapsed().as_secs_f64());
        total.merge(st);
    }
}

#[allow(dead_code)]
fn _unused(_: Status) {}

// ---------------------------------------------------------------------------
// replay of recorded history / simultaneous-run violations

fn any_from_json(v: &Value) -> Option<AnyCfg> {
    match v["engine"].as_str()? {
        "S" => serde_json::from_value(v["cfg"].clone()).ok().map(AnyCfg::S),
        "C" => serde_json::from_value(v["cfg"].clone()).ok().map(AnyCfg::C),
        _ => None,
    }
}

/// Returns 1 if the recorded violation reproduces, 0 if not, 2 on malformed input.
pub fn replay_h(prop: u8, spec: &Spec, detail: &Value, choices: &[u16]) -> i32 {
    match prop {
        15 => {
            let (Some(first), Some(second)) = (any_from_json(&detail["first"]), any_from_json(&detail["second"])) else {
                eprintln!("malformed C15 record");
                return 2;
            };
            let first_choices: Vec<u16> = serde_json::from_value(detail["first_choices"].clone()).unwrap_or_default();
            let second_choices: Vec<u16> = serde_json::from_value(detail["second_choices"].clone()).unwrap_or_default();
            let mut g = build(spec);
            let r1 = run_any(&mut g, &first, first_choices);
            println!("first run on the graph : {}", r1.text);
            let r2 = run_any(&mut g, &second, second_choices.clone());
            println!("second run, same graph : {}", r2.text);
            let mut gf = build(spec);
            let rf = run_any(&mut gf, &second, second_choices);
            println!("second run, fresh graph: {}", rf.text);
            if r2.sig != rf.sig {
                println!("REPRODUCED C15: the run on the reused graph differs from the run on a fresh graph");
                1
            } else {
                println!("the recorded violation does NOT reproduce on the current tree");
                0
            }
        }
        20 => {
            let runs: Vec<AnyCfg> = match detail["runs"].as_array() {
                Some(a) => a.iter().filter_map(any_from_json).collect(),
                None => vec![],
            };
            if runs.len() < 2 {
                eprintln!("malformed C20 record");
                return 2;
            }
            let sb = detail["switch_bound"].as_u64().unwrap_or(64) as usize;
            let g = build(spec);
            let refs: Vec<&AnyCfg> = runs.iter().collect();
            match run_multi(&g, &refs, choices.to_vec(), sb) {
                Err(m) => {
                    println!("REPRODUCED C20: {m}");
                    1
                }
                Ok(mr) => {
                    let mut bad = false;
                    for (i, r) in mr.sides.iter().enumerate() {
                        let name = (b'A' + i as u8) as char;
                        let alone = solo(spec, &runs[i], r.choices.clone());
                        println!("run {name} next to the other run(s): {}", r.text);
                        println!("run {name} alone, same answers      : {}", alone.text);
                        if alone.sig != r.sig {
                            bad = true;
                        }
                    }
                    if bad {
                        println!("REPRODUCED C20: a run behaves differently next to another run than alone");
                        1
                    } else {
                        println!("the recorded violation does NOT reproduce on the current tree");
                        0
                    }
                }
            }
        }
        _ => 2,
    }
}
