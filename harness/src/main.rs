//! fgv: model-checking harness for fn_graph.
//!
//!   fgv check <C01..C20> [--tier quick|thorough]
//!   fgv replay <replays/file.json>
//!   fgv selftest
//!
//! Exit codes: 0 = property held on everything explored (or only known findings),
//! 1 = violation (a `VIOLATION property=<id> replay=<path>` line is printed),
//! 2 = machinery problem (never a verdict).
mod budget;
mod engine_c;
mod engine_s;
mod exec;
mod explore;
mod graphs;
mod ishim;
mod mask;
mod node;
mod oracle;
mod props_build;
mod props_hist;
mod props_run;
mod replay;

use std::{
    path::{Path, PathBuf},
    time::Instant,
};

use serde_json::{json, Value};

use explore::{deadline_for, explore_spaces, Stats, ViolRec};

fn verif_dir() -> PathBuf {
    std::env::var("FGV_VERIF_DIR").map(PathBuf::from).unwrap_or_else(|_| PathBuf::from("/verif"))
}

struct PropMeta {
    id: u8,
    rule: &'static str,
    assumptions: &'static [&'static str],
}

const COMMON_RUN_ASSUMPTIONS: &[&str] = &[
    "tokio's mpsc channel and RwLock are trusted to be linearizable and wake-correct (they are exercised, not explored internally)",
    "bounded: exhaustive over the stated graph sizes and configuration menus only",
    "user futures are modelled as gates that complete when the explorer says so (incl. ready on first poll); a user future that is pending several times adds only spurious-poll behaviour",
];

const COMMON_BUILD_ASSUMPTIONS: &[&str] = &["bounded: exhaustive over the stated graph sizes, declaration alphabets and call-sequence lengths only", "the reference models (transitive closure, longest path, transitive reduction, map of accepted edges) are trusted"];

fn meta(id: u8) -> PropMeta {
    let (rule, assumptions): (&'static str, &'static [&'static str]) = match id {
        1 => ("stateless DFS over every environment choice list of every (graph, declaration, API, options) job; distinct = distinct event trace + result; non-trivial = at least two functions in flight at once in a run in which two conflicting functions both ran", COMMON_RUN_ASSUMPTIONS),
        2 => ("stateless DFS as for C01 over all labelled DAGs; non-trivial = at least two functions were handed out", COMMON_RUN_ASSUMPTIONS),
        3 => ("stateless DFS; wide families with <=1 deviation from named base schedules; non-trivial = run returned after handing out >= 2 functions", COMMON_RUN_ASSUMPTIONS),
        4 => ("stateless DFS incl. empty graph, spurious polls, fresh wakers, exhausted tokio budget, wide families; non-trivial = run returned after at least one idle point (pending without wake-up)", COMMON_RUN_ASSUMPTIONS),
        5 => ("consumer explorer: every interleaving of poll_next, FnRef drops (any number between polls), stream drop; non-trivial = an idle point or >= 2 drops between two polls occurred", COMMON_RUN_ASSUMPTIONS),
        6 => ("static: every built graph of the enumerated (DAG, declaration) inputs; dynamic: stateless DFS of unlimited, uninterrupted, non-failing concurrent runs, oracle at every idle point; non-trivial = idle point reached with >= 2 functions in flight (futures) / idle point reached (streams)", COMMON_RUN_ASSUMPTIONS),
        7 => ("stateless DFS over every non-empty failing subset; non-trivial = run returned with at least one failed function", COMMON_RUN_ASSUMPTIONS),
        8 => ("stateless DFS with the interrupt offered at every inter-poll point incl. before the first poll; non-trivial = bound reached exactly or run cut short", COMMON_RUN_ASSUMPTIONS),
        9 => ("stateless DFS over plain, interrupted and failing runs; non-trivial = outcome with unprocessed functions", COMMON_RUN_ASSUMPTIONS),
        10 => ("stateless DFS over limits {None,0,1,2,3}; non-trivial = limit reached exactly (limited) / >= 2 in flight (unlimited)", COMMON_RUN_ASSUMPTIONS),
        11 => ("every (labelled DAG, edge order, edge kinds, declaration) input built through the public builder; distinct = distinct built graph per shape; non-trivial = built graph contains a Data edge", COMMON_BUILD_ASSUMPTIONS),
        12 => ("as C11, compared with TR(U + R) \\ U; plus determinism and one-call mutations of the call sequence; non-trivial = built graph contains a Data edge", COMMON_BUILD_ASSUMPTIONS),
        13 => ("every labelled DAG (all edge insertion permutations for small n) and dense/sparse families; non-trivial = graph with a Data edge or rank > 0", COMMON_BUILD_ASSUMPTIONS),
        14 => ("every sequential iterator on every built graph, failure injected at every position; non-trivial = built graph contains a Data edge", COMMON_BUILD_ASSUMPTIONS),
        15 => ("every (first run incl. every abort point, second run full DFS) pair on one graph value vs. a fresh graph; distinct = distinct first-run behaviours used as history", COMMON_RUN_ASSUMPTIONS),
        16 => ("explicit-state search over builder call sequences against a map + reachability model; distinct = distinct reference-model state + result vector; non-trivial = sequence contains a rejected call", COMMON_BUILD_ASSUMPTIONS),
        17 => ("GraphInfo of every built graph incl. YAML round trip; non-trivial = graph contains a Data edge", COMMON_BUILD_ASSUMPTIONS),
        18 => ("queue pops of RankCalc per function (guarded counter) on every labelled DAG and dense/layered families; non-trivial = more pops than functions", COMMON_BUILD_ASSUMPTIONS),
        20 => ("two &self runs on one graph driven by one explorer, every interleaving within the switch bound, each projection replayed alone; non-trivial = both runs in progress at once", COMMON_RUN_ASSUMPTIONS),
        _ => ("", &[]),
    };
    PropMeta { id, rule, assumptions }
}

fn load_known(dir: &Path) -> Vec<(u8, String, String)> {
    // lines: known: property=C04 key=<substring of the violation key> <description>
    let mut v = vec![];
    if let Ok(s) = std::fs::read_to_string(dir.join("KNOWN_FINDINGS.txt")) {
        for line in s.lines() {
            let line = line.trim();
            if let Some(rest) = line.strip_prefix("known:") {
                let rest = rest.trim();
                let mut prop = 0u8;
                let mut key = String::new();
                let mut desc = vec![];
                for w in rest.split_whitespace() {
                    if let Some(p) = w.strip_prefix("property=C") {
                        prop = p.parse().unwrap_or(0);
                    } else if let Some(k) = w.strip_prefix("key=") {
                        key = k.replace("%20", " ");
                    } else {
                        desc.push(w);
                    }
                }
                if prop > 0 && !key.is_empty() {
                    v.push((prop, key, desc.join(" ")));
                }
            }
        }
    }
    v
}

fn write_replay(dir: &Path, r: &ViolRec) -> PathBuf {
    let rd = dir.join("replays");
    let _ = std::fs::create_dir_all(&rd);
    let h = explore::hash64(&r.key());
    let path = rd.join(format!("C{:02}-{:016x}.json", r.prop, h));
    let v = json!({
        "property": format!("C{:02}", r.prop),
        "violated": r.msg,
        "graph": r.spec,
        "graph_text": r.spec.short(),
        "job": r.cfg.to_json(),
        "job_text": r.cfg.short(),
        "choices": r.choices,
        "trace": format!("{:?}", r.trace),
        "result": r.result,
        "replay": format!("./check replay {}", path.display()),
        "build": ishim::build_name(),
    });
    let _ = std::fs::write(&path, serde_json::to_string_pretty(&v).unwrap());
    path
}

/// Used by watchdogs: report a violation found by a timeout and leave at once (the offending
/// computation cannot be cancelled).
fn emergency_violation(dir: &Path, prop: u8, tier: &str, seed: i64, spec_json: &str, msg: &str, job: Option<(String, Value)>) -> ! {
    let spec: graphs::Spec = serde_json::from_str(spec_json).unwrap_or(graphs::Spec { n: 0, edges: vec![], decl: vec![], redeclare: 0, prov: 0 });
    let cfg = match job {
        Some((text, j)) => explore::JobCfg::H(text, j),
        None => explore::JobCfg::B("rank_pops".into()),
    };
    let rec = ViolRec { prop, msg: msg.to_string(), spec: spec.clone(), cfg, choices: vec![], trace: vec![], result: String::new() };
    let p = write_replay(dir, &rec);
    let ev = json!({
        "property_id": format!("C{prop:02}"),
        "tier": tier,
        "seed": seed,
        "level": "model_checking",
        "coverage": {
            "states": 1, "transitions": 1, "traces_validated_against_impl": 1, "evaluations": 1, "distinct_nontrivial": 1,
            "samples": [{"input": spec.short()}],
            "exhaustive": false,
            "explanation": "run ended by the watchdog: one input did not finish within the time limit",
        },
        "wall_s": 0.0,
        "violations": 1,
    });
    let _ = std::fs::create_dir_all(dir.join("evidence"));
    let _ = std::fs::write(dir.join("evidence").join(format!("C{prop:02}.json")), serde_json::to_string_pretty(&ev).unwrap());
    println!("VIOLATION property=C{prop:02} replay={}", p.display());
    eprintln!("    {msg} | {}", spec.short());
    std::process::exit(1);
}

/// "builds promptly": a build() that runs for more than FGV_BUILD_LIMIT_S (default 20 s; the
/// repaired tree needs milliseconds for every enumerated input) is reported by C18 even if the
/// pop counter is never reached; other builder-side checks stop with exit 2 instead of hanging.
fn spawn_build_watchdog(is_c18: bool, id: u8, tier: &str, seed: i64, dir: &Path) {
    let limit = std::time::Duration::from_secs(std::env::var("FGV_BUILD_LIMIT_S").ok().and_then(|s| s.parse().ok()).unwrap_or(20));
    let dir2 = dir.to_path_buf();
    let tier2 = tier.to_string();
    std::thread::spawn(move || loop {
        std::thread::sleep(std::time::Duration::from_millis(250));
        if let Some((spec_json, secs)) = props_build::watch_overdue(limit) {
            if is_c18 {
                emergency_violation(&dir2, 18, &tier2, seed, &spec_json, &format!("build() still running after {secs:.0} s (limit {} s)", limit.as_secs()), None);
            } else {
                let spec: graphs::Spec = serde_json::from_str(&spec_json).unwrap_or(graphs::Spec { n: 0, edges: vec![], decl: vec![], redeclare: 0, prov: 0 });
                eprintln!("MACHINERY: build() has been running for {secs:.0} s on {} - C18 reports this, check C{id:02} cannot continue", spec.short());
                std::process::exit(2);
            }
        }
    });
}

/// Checks that are also run against fn_graph built without `interruptible` (C08 is about
/// interruption only; the builder-side properties C11-C14, C16-C18 do not depend on the feature).
const DEFAULT_BUILD_CHECKS: [u8; 11] = [1, 2, 3, 4, 5, 6, 7, 9, 10, 15, 20];

fn default_build_bin() -> Option<PathBuf> {
    if let Ok(p) = std::env::var("FGV_NI_BIN") {
        return Some(PathBuf::from(p)).filter(|p| p.exists());
    }
    let exe = std::env::current_exe().ok()?;
    let p = exe.parent()?.parent()?.join("ni").join("release").join("fgv");
    p.exists().then_some(p)
}

fn check(id: u8, tier: &str) -> i32 {
    let t0 = Instant::now();
    ishim::set_tier(tier);
    let dir = verif_dir();
    let seed: i64 = std::env::var("VERIF_SEED").ok().and_then(|s| s.parse().ok()).unwrap_or(0);
    let mut st = Stats::default();
    let mut log: Vec<Value> = vec![];
    eprintln!("fgv: checking C{id:02} tier={tier} threads={} build={}", explore::threads(), ishim::build_name());
    // The same check against fn_graph's DEFAULT feature set (no `interruptible`): a second harness
    // binary, run first; its coverage is embedded in this run's evidence.
    let mut default_build_part: Option<Value> = None;
    if !ishim::DEFAULT_FEATURES_BUILD && DEFAULT_BUILD_CHECKS.contains(&id) {
        let Some(bin) = default_build_bin() else {
            eprintln!("MACHINERY: the default-feature harness binary is missing (./check build makes it)");
            return 2;
        };
        let part = std::env::temp_dir().join(format!("fgv-part-{}-C{id:02}.json", std::process::id()));
        let _ = std::fs::remove_file(&part);
        let status = std::process::Command::new(&bin).args(["check", &format!("C{id:02}"), "--tier", tier]).env("FGV_PART_OUT", &part).status();
        match status.ok().and_then(|s| s.code()) {
            Some(0) => {
                let v = std::fs::read_to_string(&part).ok().and_then(|s| serde_json::from_str::<Value>(&s).ok());
                let _ = std::fs::remove_file(&part);
                match v {
                    Some(v) => default_build_part = Some(v),
                    None => {
                        eprintln!("MACHINERY: the default-feature harness run left no coverage report");
                        return 2;
                    }
                }
            }
            Some(1) => return 1,
            other => {
                eprintln!("MACHINERY: the default-feature harness run ended with {other:?}");
                return 2;
            }
        }
    }
    {
        // a single execution that runs for more than FGV_EXEC_LIMIT_S (default 60 s) means a poll
        // of the subject does not return: C04 / C05 report it, other checks stop with exit 2
        let limit_ms = 1000 * std::env::var("FGV_EXEC_LIMIT_S").ok().and_then(|s| s.parse::<u64>().ok()).unwrap_or(60);
        let dir2 = dir.clone();
        let tier2 = tier.to_string();
        std::thread::spawn(move || loop {
            std::thread::sleep(std::time::Duration::from_millis(500));
            if let Some((desc, ms)) = explore::watch_stuck(limit_ms) {
                let v: Value = serde_json::from_str(&desc).unwrap_or(json!({}));
                let text = v["text"].as_str().unwrap_or("").to_string();
                let is_stream = v["job"]["engine"].as_str() == Some("C");
                if (id == 4 && !is_stream) || (id == 5 && is_stream) {
                    emergency_violation(&dir2, id, &tier2, seed, &v["graph"].to_string(), &format!("one poll of the subject has been running for {} s: the call neither returns nor yields ({text})", ms / 1000), Some((text.clone(), v["job"].clone())));
                } else {
                    eprintln!("MACHINERY: an execution has been running for {} s ({text}); a poll of the subject does not return - C04/C05 report this, this check cannot continue", ms / 1000);
                    std::process::exit(2);
                }
            }
        });
    }
    let deadline = deadline_for(tier);
    match id {
        1 | 2 | 3 | 4 | 5 | 6 | 7 | 8 | 9 | 10 => {
            let (spaces, focus) = match id {
                1 => props_run::c01(tier),
                2 => props_run::c02(tier),
                3 => props_run::c03(tier),
                4 => props_run::c04(tier),
                5 => props_run::c05(tier),
                6 => props_run::c06(tier),
                7 => props_run::c07(tier),
                8 => props_run::c08(tier),
                9 => props_run::c09(tier),
                _ => props_run::c10(tier),
            };
            if id == 6 && !ishim::DEFAULT_FEATURES_BUILD {
                spawn_build_watchdog(false, id, tier, seed, &dir);
                props_build::run_build_props(6, tier, deadline, &mut st, &mut log);
            }
            if id == 4 {
                if let Err(m) = budget::selftest() {
                    st.machinery_errors.push(format!("tokio budget control self-test failed: {m}"));
                }
            }
            // diagnosis only (never set by ./check): run only the spaces whose name contains this
            let only = std::env::var("FGV_ONLY_SPACE").ok();
            let spaces: Vec<_> = spaces.into_iter().filter(|s| only.as_ref().is_none_or(|o| s.label.contains(o.as_str()))).collect();
            if only.is_some() {
                st.machinery_errors.push("FGV_ONLY_SPACE is set: partial run for diagnosis, not a verdict".into());
            }
            explore_spaces(&spaces, &focus, deadline, &mut st, &mut log);
            if id == 8 && only.is_none() {
                props_run::c08_ignore_differential(tier, deadline, &mut st, &mut log);
            }
        }
        18 => {
            spawn_build_watchdog(true, id, tier, seed, &dir);
            props_build::run_build_props(id, tier, deadline, &mut st, &mut log)
        }
        11 | 12 | 13 | 14 | 17 => {
            spawn_build_watchdog(false, id, tier, seed, &dir);
            props_build::run_build_props(id, tier, deadline, &mut st, &mut log)
        }
        16 => props_build::run_c16(tier, deadline, &mut st, &mut log),
        15 | 20 => {
            // runs inside runs first: cheap, and never cut by the cap
            let (spaces, focus) = props_run::nested_run_spaces(id, tier);
            explore_spaces(&spaces, &focus, deadline, &mut st, &mut log);
            if id == 15 {
                props_hist::run_c15(tier, deadline, &mut st, &mut log);
            } else {
                props_hist::run_c20(tier, deadline, &mut st, &mut log);
            }
        }
        _ => {
            eprintln!("fgv: property C{id:02} has no check (see MANIFEST.json not_applicable)");
            return 2;
        }
    }
    let wall = t0.elapsed().as_secs_f64();
    // known findings
    let known = load_known(&dir);
    let mut known_hits: Vec<String> = vec![];
    let mut new_viols: Vec<&ViolRec> = vec![];
    for r in &st.viols {
        let key = r.key();
        if let Some((_, _, desc)) = known.iter().find(|(p, k, _)| *p == r.prop && key.contains(k.as_str())) {
            let line = format!("KNOWN-FINDING: property=C{:02} {}", r.prop, desc);
            if !known_hits.contains(&line) {
                known_hits.push(line);
            }
        } else {
            new_viols.push(r);
        }
    }
    let m = meta(id);
    let mut samples = st.samples.clone();
    if samples.is_empty() {
        samples.push(json!({"note": "no sample recorded"}));
    }
    let exhaustive = !st.capped;
    let mut coverage = json!({
        "states": st.states.max(1),
        "transitions": st.transitions.max(1),
        "traces_validated_against_impl": st.execs,
        "evaluations": st.execs,
        "distinct_nontrivial": st.nontrivial,
        "distinct_traces": st.distinct_traces,
        "rule": m.rule,
        "samples": samples,
        "exhaustive": exhaustive,
        "explanation": "Every explored trace is an execution of the real fn_graph code under a controlled executor / the real builder; `states` counts distinct abstract states seen at decision points (per job, jobs are disjoint), `transitions` counts executed environment actions with shared prefixes counted once.",
        "spaces": log,
        "jobs": st.jobs,
        "max_choice_list_length": st.max_depth,
        "max_polls_in_one_execution": st.max_polls,
        "max_deviations": st.max_deviations,
        "determinism_rechecks": st.recheck,
        "counters": st.counters,
        "threads": explore::threads(),
        "wall_cap_hit": st.capped,
    });
    if st.capped {
        coverage["caps"] = json!("wall-clock cap reached: spaces marked completed=false were cut short; spaces are ordered smallest first and everything marked completed=true was enumerated completely");
    }
    coverage["fn_graph_features"] = json!(if ishim::DEFAULT_FEATURES_BUILD { "async, graph_info (fn_graph's default set plus graph_info)" } else { "async, interruptible, graph_info" });
    if let Some(part) = &default_build_part {
        let mut c = part["coverage"].clone();
        if let Some(a) = c["samples"].as_array_mut() {
            a.truncate(2);
        }
        c["wall_s"] = part["wall_s"].clone();
        coverage["default_feature_build"] = c;
        coverage["explanation"] = json!(format!(
            "{} The same check was first run by a second harness binary built against fn_graph WITHOUT its `interruptible` feature (the crate's default feature set, where the other cfg halves of the scheduler are compiled); its counts are under default_feature_build and are not included in the top-level counts.",
            coverage["explanation"].as_str().unwrap_or("")
        ));
    }
    let viol_classes: Vec<Value> = st.viol_classes.iter().map(|(k, c)| json!({"class": k, "count": c})).collect();
    let ev = json!({
        "property_id": format!("C{:02}", m.id),
        "tier": tier,
        "seed": seed,
        "level": "model_checking",
        "coverage": coverage,
        "assumptions": m.assumptions,
        "wall_s": wall,
        "violations": new_viols.len(),
        "violation_classes": viol_classes,
        "known_findings_matched": known_hits,
        "machinery_errors": st.machinery_errors.iter().take(10).collect::<Vec<_>>(),
        "build": ishim::build_name(),
    });
    let evd = dir.join("evidence");
    let _ = std::fs::create_dir_all(&evd);
    let mut evp = evd.join(format!("C{:02}.json", id));
    if ishim::DEFAULT_FEATURES_BUILD && new_viols.is_empty() && st.machinery_errors.is_empty() {
        if let Ok(p) = std::env::var("FGV_PART_OUT") {
            evp = PathBuf::from(p);
        }
    }
    if let Err(e) = std::fs::write(&evp, serde_json::to_string_pretty(&ev).unwrap()) {
        eprintln!("fgv: cannot write {}: {e}", evp.display());
        return 2;
    }
    println!(
        "C{id:02} {tier}{}: executions={} states={} transitions={} distinct_nontrivial={} violations={} exhaustive={} wall={:.1}s",
        if ishim::DEFAULT_FEATURES_BUILD { " [fn_graph default-feature build]" } else { "" },
        st.execs,
        st.states,
        st.transitions,
        st.nontrivial,
        st.viol_total,
        exhaustive,
        wall
    );
    for l in &known_hits {
        println!("{l}");
    }
    if !st.machinery_errors.is_empty() {
        for e in st.machinery_errors.iter().take(5) {
            eprintln!("MACHINERY: {e}");
        }
        return 2;
    }
    if !new_viols.is_empty() {
        for (k, c) in &st.viol_classes {
            eprintln!("  violation class {k}: {c}");
        }
        let mut printed = 0;
        for r in new_viols {
            let p = write_replay(&dir, r);
            if printed < 12 {
                println!("VIOLATION property=C{:02} replay={}", r.prop, p.display());
                eprintln!("    {} | {} | {} | choices={:?}", r.msg, r.cfg.short(), r.spec.short(), r.choices);
                printed += 1;
            }
        }
        return 1;
    }
    0
}

fn main() {
    exec::install_panic_hook();
    let args: Vec<String> = std::env::args().collect();
    let code = match args.get(1).map(|s| s.as_str()) {
        Some("check") => {
            let id = args.get(2).and_then(|s| s.trim_start_matches(['C', 'c']).parse::<u8>().ok()).unwrap_or(0);
            let mut tier = std::env::var("VERIF_TIER").unwrap_or_else(|_| "quick".into());
            let mut i = 3;
            while i < args.len() {
                if args[i] == "--tier" && i + 1 < args.len() {
                    tier = args[i + 1].clone();
                    i += 1;
                } else if args[i] == "quick" || args[i] == "thorough" {
                    tier = args[i].clone();
                }
                i += 1;
            }
            if tier != "quick" && tier != "thorough" {
                eprintln!("unknown tier {tier}");
                2
            } else if id == 0 || id > 20 {
                eprintln!("usage: fgv check C01..C20 [--tier quick|thorough]");
                2
            } else {
                check(id, &tier)
            }
        }
        Some("replay") => match args.get(2) {
            Some(p) => {
                let wanted = std::fs::read_to_string(p).ok().and_then(|s| serde_json::from_str::<Value>(&s).ok()).and_then(|v| v["build"].as_str().map(|s| s.to_string()));
                if wanted.as_deref() == Some("default-features") && !ishim::DEFAULT_FEATURES_BUILD {
                    match default_build_bin() {
                        Some(bin) => std::process::Command::new(bin).args(["replay", p]).status().ok().and_then(|s| s.code()).unwrap_or(2),
                        None => {
                            eprintln!("MACHINERY: the default-feature harness binary is missing");
                            2
                        }
                    }
                } else {
                    replay::replay(Path::new(p))
                }
            }
            None => {
                eprintln!("usage: fgv replay <file>");
                2
            }
        },
        Some("selftest") => match budget::selftest() {
            Ok(()) => {
                println!("tokio budget control: ok");
                0
            }
            Err(m) => {
                eprintln!("tokio budget control: {m}");
                2
            }
        },
        _ => {
            eprintln!("usage: fgv check <Cnn> [--tier quick|thorough] | fgv replay <file> | fgv selftest");
            2
        }
    };
    std::process::exit(code);
}
