//! The harness is built twice: with fn_graph's `interruptible` feature (every API and option), and
//! without it, which is fn_graph's DEFAULT feature set and the build the repository's own suite
//! exercises. In that build the `#[cfg(not(feature = "interruptible"))]` halves of the scheduler
//! closures and `poll_and_track_fn_ready` are compiled instead, StreamOpts has no interruption
//! options and `stream_interruptible*` do not exist. This module is the only place that differs
//! between the two harness builds; configurations that need interruption are filtered out by
//! `ni_ok_*` in the default-feature build.
use tokio::sync::mpsc;

use crate::engine_s::Strat;

/// true in the harness build without fn_graph's `interruptible` feature.
pub const DEFAULT_FEATURES_BUILD: bool = cfg!(not(feature = "interruptible"));

pub fn build_name() -> &'static str {
    if DEFAULT_FEATURES_BUILD {
        "default-features"
    } else {
        "interruptible"
    }
}

#[cfg(feature = "interruptible")]
pub use interruptible::{InterruptSignal, InterruptibilityState};

#[cfg(feature = "interruptible")]
pub fn mk_state<'rx, 'intx>(strat: Strat, irx: &'rx mut mpsc::Receiver<InterruptSignal>) -> InterruptibilityState<'rx, 'intx> {
    match strat {
        Strat::Non => InterruptibilityState::new_non_interruptible(),
        Strat::Ignore => InterruptibilityState::new_ignore_interruptions(irx.into()),
        Strat::Finish => InterruptibilityState::new_finish_current(irx.into()),
        Strat::NextN(k) => InterruptibilityState::new_poll_next_n(irx.into(), k),
    }
}

#[cfg(not(feature = "interruptible"))]
pub struct InterruptSignal;

#[cfg(not(feature = "interruptible"))]
pub struct InterruptibilityState<'rx, 'intx>(std::marker::PhantomData<&'intx &'rx ()>);

#[cfg(not(feature = "interruptible"))]
pub fn mk_state<'rx, 'intx>(strat: Strat, _irx: &'rx mut mpsc::Receiver<InterruptSignal>) -> InterruptibilityState<'rx, 'intx> {
    assert!(strat == Strat::Non, "interruption does not exist in the default-feature build");
    InterruptibilityState(std::marker::PhantomData)
}

/// Can this future-API configuration be expressed without the `interruptible` feature?
pub fn ni_ok_s(c: &crate::engine_s::RunCfg) -> bool {
    c.strat == Strat::Non && !c.interrupt && c.include && c.opts_order == 0 && c.pre.as_ref().is_none_or(|p| ni_ok_s(p))
}

pub fn ni_ok_c(c: &crate::engine_c::CCfg) -> bool {
    use crate::engine_c::SApi;
    matches!(c.api, SApi::Stream | SApi::StreamWith) && c.strat == Strat::Non && !c.interrupt && c.include && c.opts_order == 0 && c.pre.as_ref().is_none_or(|p| ni_ok_s(p))
}

pub fn ni_ok_job(j: &crate::explore::JobCfg) -> bool {
    match j {
        crate::explore::JobCfg::S(c) => ni_ok_s(c),
        crate::explore::JobCfg::C(c) => ni_ok_c(c),
        _ => true,
    }
}

static QUICK: std::sync::atomic::AtomicBool = std::sync::atomic::AtomicBool::new(false);

pub fn set_tier(tier: &str) {
    QUICK.store(tier == "quick", std::sync::atomic::Ordering::Relaxed);
}

/// The default-feature build leaves the largest input spaces to the interruptible build: more than
/// 3 000 graphs in the quick tier, more than 1 000 000 (the 7-node space) in the thorough tier.
pub fn space_max_graphs() -> usize {
    if QUICK.load(std::sync::atomic::Ordering::Relaxed) {
        3000
    } else {
        1_000_000
    }
}

pub fn skip_space_in_this_build(graphs: usize) -> bool {
    DEFAULT_FEATURES_BUILD && graphs > space_max_graphs()
}
