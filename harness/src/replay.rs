//! Re-executes one recorded violation without any search: the "plain unit test" form.
use std::path::Path;

use serde_json::Value;

use crate::{
    engine_c::{run_c, CCfg},
    engine_s::{run_on, RunCfg},
    explore::{JobCfg, Stats},
    graphs::{build, Spec},
    oracle::{analyze_c, analyze_s, Info, Viol},
};

pub fn replay(path: &Path) -> i32 {
    let text = match std::fs::read_to_string(path) {
        Ok(t) => t,
        Err(e) => {
            eprintln!("cannot read {}: {e}", path.display());
            return 2;
        }
    };
    let v: Value = match serde_json::from_str(&text) {
        Ok(v) => v,
        Err(e) => {
            eprintln!("cannot parse {}: {e}", path.display());
            return 2;
        }
    };
    let prop: u8 = v["property"].as_str().and_then(|s| s.trim_start_matches('C').parse().ok()).unwrap_or(0);
    let spec: Spec = match serde_json::from_value(v["graph"].clone()) {
        Ok(s) => s,
        Err(e) => {
            eprintln!("bad graph: {e}");
            return 2;
        }
    };
    let choices: Vec<u16> = serde_json::from_value(v["choices"].clone()).unwrap_or_default();
    let engine = v["job"]["engine"].as_str().unwrap_or("");
    println!("replaying {} on {}", v["job_text"].as_str().unwrap_or(""), spec.short());
    println!("recorded violation: {}", v["violated"].as_str().unwrap_or(""));
    let mut viols: Vec<Viol> = vec![];
    match engine {
        "S" => {
            let cfg: RunCfg = match serde_json::from_value(v["job"]["cfg"].clone()) {
                Ok(c) => c,
                Err(e) => {
                    eprintln!("bad cfg: {e}");
                    return 2;
                }
            };
            let mut g = build(&spec);
            let info: Info<u64> = Info::new(&spec, &g);
            if let Some(p) = &cfg.pre {
                let r0 = run_on(&mut g, p, vec![]);
                println!("earlier run on the same graph: {:?} -> {:?}", r0.ev, r0.status);
            }
            let r = run_on(&mut g, &cfg, choices.clone());
            if r.diverged {
                eprintln!("replay diverged: the recorded choice list does not fit the current code's menus");
            }
            println!("choices: {:?}", r.taken.iter().map(|t| format!("{}/{}", t.c, t.k)).collect::<Vec<_>>());
            println!("trace:   {:?}", r.ev);
            println!("result:  {:?} {:?}", r.status, r.out);
            analyze_s(&info, &cfg, &r, &mut viols);
        }
        "C" => {
            let cfg: CCfg = match serde_json::from_value(v["job"]["cfg"].clone()) {
                Ok(c) => c,
                Err(e) => {
                    eprintln!("bad cfg: {e}");
                    return 2;
                }
            };
            let mut g = build(&spec);
            let info: Info<u64> = Info::new(&spec, &g);
            if let Some(p) = &cfg.pre {
                let r0 = run_on(&mut g, p, vec![]);
                println!("earlier run on the same graph: {:?} -> {:?}", r0.ev, r0.status);
            }
            let r = run_c(&g, &cfg, choices.clone());
            println!("choices: {:?}", r.taken.iter().map(|t| format!("{}/{}", t.c, t.k)).collect::<Vec<_>>());
            println!("trace:   {:?}", r.ev);
            println!("result:  {:?} {:?}", r.status, r.end);
            analyze_c(&info, &cfg, &r, &mut viols);
        }
        "B" => {
            let what = v["job"]["check"].as_str().unwrap_or("");
            let mut st = Stats::default();
            match what {
                "build" => {
                    crate::props_build::check_built(&spec, &[prop], &mut st);
                }
                "sensitivity" => crate::props_build::check_sensitivity(&spec, &mut st),
                "iterate" => crate::props_build::check_iteration(&spec, &mut st),
                w if w.starts_with("iterate_history:") => crate::props_build::replay_iteration_history(&spec, w, &mut st),
                "graph_info" => crate::props_build::check_graph_info(&spec, true, &mut st),
                "rank_pops" => crate::props_build::check_pops(&spec, &mut st),
                w if w.starts_with("call_sequence") => {
                    crate::props_build::set_history_props(&[prop]);
                    crate::props_build::replay_c16(&spec, w, &mut st)
                }
                _ => {
                    eprintln!("unknown builder check {what}");
                    return 2;
                }
            }
            for r in &st.viols {
                viols.push(Viol { prop: r.prop, msg: r.msg.clone() });
            }
        }
        "H" => {
            return crate::props_hist::replay_h(prop, &spec, &v["job"]["detail"], &choices);
        }
        _ => {
            eprintln!("unknown engine {engine}");
            return 2;
        }
    }
    let mine: Vec<&Viol> = viols.iter().filter(|x| x.prop == prop).collect();
    if mine.is_empty() {
        println!("the recorded violation does NOT reproduce on the current tree");
        0
    } else {
        for m in mine {
            println!("REPRODUCED C{:02}: {}", m.prop, m.msg);
        }
        1
    }
}

#[allow(dead_code)]
fn _t(_: JobCfg) {}
