//! Engine S: schedule explorer for the 20 future-returning streaming APIs.
//!
//! The returned future is polled by hand; user futures are gates; the
//! environment (completion order, poll timing, interrupt timing, spurious polls,
//! ready-on-first-poll, tokio budget) is a list of small integers.
use std::{
    future::Future,
    ops::ControlFlow,
    pin::Pin,
    sync::Arc,
    task::{Context, Poll, Waker},
};

use fn_graph::{FnGraph, StreamOpts, StreamOutcome};
use futures::FutureExt;
use serde::{Deserialize, Serialize};
use tokio::sync::mpsc;

use crate::{
    exec::{catch_quiet, start, Ev, FlagWaker, Sh, Shared, Taken},
    ishim::{mk_state, InterruptSignal, InterruptibilityState},
    node::Node,
};

#[derive(Clone, Copy, Debug, PartialEq, Eq, Hash, Serialize, Deserialize)]
pub enum Kind {
    ForEach,
    TryForEach,
    Control,
    Fold,
    TryFold,
}

#[derive(Clone, Copy, Debug, PartialEq, Eq, Hash, Serialize, Deserialize)]
pub struct Api {
    pub kind: Kind,
    pub mutable: bool,
    /// true = the `_with` method (takes StreamOpts); false = the plain method.
    pub with: bool,
}

impl Api {
    pub fn name(&self) -> String {
        let base = match self.kind {
            Kind::ForEach => "for_each_concurrent",
            Kind::TryForEach => "try_for_each_concurrent",
            Kind::Control => "try_for_each_concurrent_control",
            Kind::Fold => "fold_async",
            Kind::TryFold => "try_fold_async",
        };
        format!("{base}{}{}", if self.mutable { "_mut" } else { "" }, if self.with { "_with" } else { "" })
    }

    pub fn concurrent(&self) -> bool {
        matches!(self.kind, Kind::ForEach | Kind::TryForEach | Kind::Control)
    }

    pub fn is_try(&self) -> bool {
        matches!(self.kind, Kind::TryForEach | Kind::Control | Kind::TryFold)
    }

    pub fn all_with() -> Vec<Api> {
        let mut v = vec![];
        for kind in [Kind::ForEach, Kind::TryForEach, Kind::Control, Kind::Fold, Kind::TryFold] {
            for mutable in [false, true] {
                v.push(Api { kind, mutable, with: true });
            }
        }
        v
    }

    pub fn all_plain() -> Vec<Api> {
        Self::all_with().into_iter().map(|a| Api { with: false, ..a }).collect()
    }

    pub fn all() -> Vec<Api> {
        let mut v = Self::all_with();
        v.extend(Self::all_plain());
        v
    }
}

#[derive(Clone, Copy, Debug, PartialEq, Eq, Hash, Serialize, Deserialize)]
pub enum Strat {
    /// StreamOpts default: NonInterruptible (no receiver at all).
    Non,
    Ignore,
    Finish,
    NextN(u64),
}

impl Strat {
    /// Does a sent signal change which functions run?
    pub fn effective(&self) -> bool {
        matches!(self, Strat::Finish | Strat::NextN(_))
    }
}

#[derive(Clone, Copy, Debug, PartialEq, Eq, Hash, Serialize, Deserialize)]
pub enum Base {
    /// choice 0 everywhere: poll when woken, else complete the lowest function.
    Eager,
    /// every user future is ready on its first poll.
    AllImmediate,
    /// complete everything in flight (ascending), then poll.
    Batch,
    /// complete everything in flight (descending), then poll.
    ReverseBatch,
    /// poll when woken, else complete the highest-numbered function in flight.
    EagerHigh,
    /// poll when woken; otherwise complete the lowest in-flight function that is NOT in
    /// `RunCfg::avoid` (a maximum antichain), and members of it only when nothing else is left:
    /// keeps as many mutually independent functions in flight as the graph allows.
    Avoid,
}

#[derive(Clone, Debug, PartialEq, Eq, Hash, Serialize, Deserialize)]
pub struct RunCfg {
    pub api: Api,
    pub rev: bool,
    pub limit: Option<usize>,
    pub strat: Strat,
    pub include: bool,
    /// Functions whose user future fails (try APIs).
    pub fail: Vec<bool>,
    /// Offer ready-on-first-poll as a choice.
    pub imm_choice: bool,
    /// Budget of polls made although no wake-up was signalled.
    pub spurious: u8,
    /// Every poll gets a brand-new waker; only the newest counts.
    pub fresh_waker: bool,
    /// Arm the Interrupt action (needs strat != Non).
    pub interrupt: bool,
    pub base: Base,
    /// Drop the future when the choice log reaches this length (C15).
    pub abort_at: Option<usize>,
    /// tokio cooperative budgets offered at each poll (empty = unconstrained only).
    pub budgets: Vec<u16>,
    /// How many polls may get a constrained budget.
    pub budget_polls: u8,
    /// Order in which the StreamOpts builder methods are called (0..6): the options must not
    /// depend on it.
    #[serde(default)]
    pub opts_order: u8,
    /// The set `Base::Avoid` keeps in flight.
    #[serde(default)]
    pub avoid: Vec<bool>,
    /// An earlier run executed on the same graph value (on its default schedule, to the end)
    /// before the explored run starts.
    #[serde(default)]
    pub pre: Option<Box<RunCfg>>,
    /// Every poll runs inside a tokio task whose cooperative budget starts at this value (128 is
    /// tokio's; less = the user's own futures used some of it in that tick). None = polled outside
    /// a runtime, where the budget is unconstrained.
    #[serde(default)]
    pub task_budget: Option<u16>,
    /// The user futures may send the interrupt signal themselves, from inside the poll (at their
    /// first poll or in the poll in which they complete), instead of the explorer between polls.
    #[serde(default)]
    pub mid_poll_int: bool,
    /// Inside-poll behaviour of the caller's futures: each may once wake itself and return Pending
    /// (.0 times per run), and a completing one may complete a sibling from inside its own poll
    /// (.1 times per run).
    #[serde(default)]
    pub gate_tricks: (u8, u8),
    /// How many user futures may drive a nested run on the same graph from inside their first poll
    /// (`&self` APIs only).
    #[serde(default)]
    pub nested: u8,
}

/// The three StreamOpts builder steps in one of the 6 possible call orders.
/// I = interruptibility_state, N = interrupted_next_item_include, R = rev (only if requested).
#[cfg(feature = "interruptible")]
pub fn build_opts<'rx, 'intx>(order: u8, state: InterruptibilityState<'rx, 'intx>, include: bool, rev: bool) -> StreamOpts<'rx, 'intx> {
    const ORDERS: [[u8; 3]; 6] = [[0, 1, 2], [0, 2, 1], [1, 0, 2], [1, 2, 0], [2, 0, 1], [2, 1, 0]];
    let mut opts = StreamOpts::new();
    let mut state = Some(state);
    for step in ORDERS[(order % 6) as usize] {
        opts = match step {
            0 => opts.interruptibility_state(state.take().expect("once")),
            1 => opts.interrupted_next_item_include(include),
            _ => {
                if rev {
                    opts.rev()
                } else {
                    opts
                }
            }
        };
    }
    opts
}

/// Without the `interruptible` feature StreamOpts has one builder step only.
#[cfg(not(feature = "interruptible"))]
pub fn build_opts<'rx, 'intx>(_order: u8, _state: InterruptibilityState<'rx, 'intx>, _include: bool, rev: bool) -> StreamOpts<'rx, 'intx> {
    let opts = StreamOpts::new();
    if rev {
        opts.rev()
    } else {
        opts
    }
}

impl RunCfg {
    pub fn plain(api: Api, n: usize) -> RunCfg {
        RunCfg {
            api,
            rev: false,
            limit: None,
            strat: Strat::Non,
            include: true,
            fail: vec![false; n],
            imm_choice: true,
            spurious: 0,
            fresh_waker: false,
            interrupt: false,
            base: Base::Eager,
            abort_at: None,
            budgets: vec![],
            budget_polls: 0,
            opts_order: 0,
            avoid: vec![],
            pre: None,
            task_budget: None,
            mid_poll_int: false,
            gate_tricks: (0, 0),
            nested: 0,
        }
    }

    pub fn short(&self) -> String {
        let mut s = format!("{}", self.api.name());
        if let Some(p) = &self.pre {
            s = format!("[after {}] {s}", p.short());
        }
        if self.opts_order != 0 {
            s += &format!(" opts-order={}", self.opts_order);
        }
        if self.rev {
            s += " rev";
        }
        if let Some(l) = self.limit {
            s += &format!(" limit={l}");
        }
        if self.strat != Strat::Non {
            s += &format!(" {:?} include={}", self.strat, self.include);
        }
        if self.fail.iter().any(|f| *f) {
            let f: Vec<usize> = (0..self.fail.len()).filter(|i| self.fail[*i]).collect();
            s += &format!(" fail={f:?}");
        }
        if self.spurious > 0 {
            s += &format!(" spurious<={}", self.spurious);
        }
        if self.fresh_waker {
            s += " fresh-waker";
        }
        if self.base != Base::Eager {
            s += &format!(" base={:?}", self.base);
        }
        if !self.budgets.is_empty() {
            s += &format!(" budgets={:?}x{}", self.budgets, self.budget_polls);
        }
        if let Some(b) = self.task_budget {
            s += &format!(" in-tokio-task(budget {b} per poll)");
        }
        if self.mid_poll_int {
            s += " signal-sent-by-a-user-future";
        }
        if self.nested > 0 {
            s += &format!(" user-futures-may-run-the-same-graph-inside-their-poll(<={})", self.nested);
        }
        if self.gate_tricks != (0, 0) {
            s += &format!(" user-futures-may-wake-themselves(<={})/complete-a-sibling-inside-their-poll(<={})", self.gate_tricks.0, self.gate_tricks.1);
        }
        s
    }
}

#[derive(Clone, Debug, Default, PartialEq, Eq, Serialize, Deserialize)]
pub struct Out {
    /// Ok / Continue (true) or Err / Break (false).
    pub ok: bool,
    /// false for try_fold's bare `Err(e)`.
    pub has_outcome: bool,
    pub state: String,
    pub processed: Vec<usize>,
    pub not_processed: Vec<usize>,
    pub errors: Vec<usize>,
    /// The folded value (ids in the order the fold closure finished them).
    pub seed: Vec<usize>,
}

#[derive(Clone, Debug, PartialEq, Eq, Serialize, Deserialize)]
pub enum Status {
    Returned,
    /// Pending, no wake-up signalled, no user future left to complete.
    Deadlock,
    /// Poll horizon exceeded.
    Livelock,
    Panic(String),
    Aborted,
}

#[derive(Clone, Debug)]
pub struct RunRes {
    pub status: Status,
    pub out: Option<Out>,
    pub ev: Vec<Ev>,
    pub taken: Vec<Taken>,
    pub polls: usize,
    /// Hashes of the abstract state at every decision point.
    pub states: Vec<u64>,
    pub diverged: bool,
    /// Nested runs driven by user futures of this run.
    pub nested: Vec<crate::exec::NestedRun>,
}

fn so_to_out<T>(ok: bool, so: StreamOutcome<T>, errors: Vec<usize>, seed: impl FnOnce(T) -> Vec<usize>) -> Out {
    Out {
        ok,
        has_outcome: true,
        // fields and accessor methods must tell the same story
        state: if so.state() == so.state { format!("{:?}", so.state) } else { format!("{:?} (field) but state() = {:?}", so.state, so.state()) },
        processed: if so.fn_ids_processed() == so.fn_ids_processed.as_slice() { so.fn_ids_processed.iter().map(|i| i.index()).collect() } else { so.fn_ids_processed().iter().map(|i| i.index()).chain([usize::MAX]).collect() },
        not_processed: if so.fn_ids_not_processed() == so.fn_ids_not_processed.as_slice() { so.fn_ids_not_processed.iter().map(|i| i.index()).collect() } else { so.fn_ids_not_processed().iter().map(|i| i.index()).chain([usize::MAX]).collect() },
        errors,
        seed: seed(so.value),
    }
}

#[derive(Clone, Copy, Debug)]
enum Act {
    Poll,
    Spurious,
    Complete(usize),
    Interrupt,
}

pub struct DriveRes {
    pub status: Status,
    pub out: Option<Out>,
    pub polls: usize,
    pub states: Vec<u64>,
}

fn mix(h: u64, v: u64) -> u64 {
    (h ^ v).wrapping_mul(0x100000001b3).rotate_left(17)
}

/// The controlled executor of one future, as a state machine: every `step` is
/// one decision of the environment (poll, complete a user future, interrupt, ...).
pub struct Driver<'a, Fut> {
    fut: Pin<&'a mut Fut>,
    sh: &'a Sh,
    cfg: &'a RunCfg,
    intx: Option<&'a mpsc::Sender<InterruptSignal>>,
    n: usize,
    fw: Arc<FlagWaker>,
    first: bool,
    int_sent: bool,
    spurious: u8,
    budget_polls: u8,
    polls: usize,
    window_dirty: bool,
    last_pending: bool,
    states: Vec<u64>,
    horizon: usize,
    acts: Vec<Act>,
}

impl<'a, Fut: Future<Output = Out>> Driver<'a, Fut> {
    pub fn new(fut: Pin<&'a mut Fut>, sh: &'a Sh, cfg: &'a RunCfg, intx: Option<&'a mpsc::Sender<InterruptSignal>>) -> Self {
        let n = sh.borrow().n;
        Driver {
            fut,
            sh,
            cfg,
            intx,
            n,
            fw: FlagWaker::new(),
            first: true,
            int_sent: !(cfg.interrupt && intx.is_some()),
            spurious: cfg.spurious,
            budget_polls: cfg.budget_polls,
            polls: 0,
            window_dirty: false,
            last_pending: false,
            states: Vec::with_capacity(16),
            horizon: 8 * n + 32 + cfg.spurious as usize + 4 * cfg.budget_polls as usize,
            acts: Vec::with_capacity(n + 3),
        }
    }

    fn finish(&mut self, status: Status, out: Option<Out>) -> Option<DriveRes> {
        Some(DriveRes { status, out, polls: self.polls, states: std::mem::take(&mut self.states) })
    }

    /// Can this run make progress on its own (poll or complete something)?
    pub fn can_progress(&self) -> bool {
        let s = self.sh.borrow();
        self.first || self.fw.woken() || (0..self.n).any(|i| s.started[i] > 0 && !s.released[i])
    }

    /// One environment decision. Returns Some(result) when the run is over.
    pub fn step(&mut self) -> Option<DriveRes> {
        let n = self.n;
        let cfg = self.cfg;
        let sh = self.sh;
        let woken = self.fw.woken();
        self.acts.clear();
        let mut lowest = None;
        let mut highest = None;
        let mut lowest_outside = None;
        {
            let s = sh.borrow();
            if self.first || woken {
                self.acts.push(Act::Poll);
            }
            for i in 0..n {
                if s.started[i] > 0 && !s.released[i] {
                    if lowest.is_none() {
                        lowest = Some(self.acts.len());
                    }
                    if lowest_outside.is_none() && !cfg.avoid.get(i).copied().unwrap_or(false) {
                        lowest_outside = Some(self.acts.len());
                    }
                    highest = Some(self.acts.len());
                    self.acts.push(Act::Complete(i));
                }
            }
            if !self.int_sent && !s.int_sent && !self.window_dirty && !cfg.mid_poll_int {
                self.acts.push(Act::Interrupt);
            }
            if !self.first && !woken && self.spurious > 0 {
                self.acts.push(Act::Spurious);
            }
            // abstract state (reported only, never used to prune)
            let mut h = 0xcbf29ce484222325u64;
            if n <= 64 {
                for i in 0..n {
                    h = mix(h, (s.started[i] as u64) | (s.released[i] as u64) << 8 | (s.ended[i] as u64) << 9);
                }
            } else {
                h = mix(h, s.ev.len() as u64);
            }
            h = mix(h, woken as u64 | (self.int_sent as u64) << 1 | (self.first as u64) << 2 | (self.last_pending as u64) << 3 | (self.window_dirty as u64) << 4);
            self.states.push(h);
        }
        if let Some(k) = cfg.abort_at {
            if sh.borrow().ch_len() >= k {
                sh.borrow_mut().ev.push(Ev::DropSubject);
                return self.finish(Status::Aborted, None);
            }
        }
        if !self.acts.iter().any(|a| matches!(a, Act::Poll | Act::Complete(_))) {
            return self.finish(Status::Deadlock, None);
        }
        let default = match cfg.base {
            Base::Eager | Base::AllImmediate => 0,
            Base::Batch => lowest.unwrap_or(0),
            Base::ReverseBatch => highest.unwrap_or(0),
            Base::Avoid => {
                if self.first || woken {
                    0
                } else {
                    lowest_outside.or(lowest).unwrap_or(0)
                }
            }
            Base::EagerHigh => {
                if self.first || woken {
                    0
                } else {
                    highest.unwrap_or(0)
                }
            }
        };
        let c = sh.borrow_mut().choose(self.acts.len(), default);
        match self.acts[c] {
            Act::Poll | Act::Spurious => {
                let sp = matches!(self.acts[c], Act::Spurious);
                if sp {
                    self.spurious -= 1;
                }
                // tokio cooperative budget for this poll
                let mut budget: Option<u16> = None;
                if !cfg.budgets.is_empty() && self.budget_polls > 0 {
                    let b = sh.borrow_mut().choose(cfg.budgets.len() + 1, 0);
                    if b > 0 {
                        self.budget_polls -= 1;
                        budget = Some(cfg.budgets[b - 1]);
                        sh.borrow_mut().ev.push(Ev::Budget(cfg.budgets[b - 1]));
                    }
                }
                self.first = false;
                self.window_dirty = false;
                if cfg.fresh_waker {
                    self.fw = FlagWaker::new();
                }
                self.fw.clear();
                let waker = Waker::from(Arc::clone(&self.fw));
                let mut cx = Context::from_waker(&waker);
                sh.borrow_mut().ev.push(Ev::Poll { spurious: sp });
                self.polls += 1;
                if self.polls > self.horizon {
                    return self.finish(Status::Livelock, None);
                }
                let fut = &mut self.fut;
                let r = match budget.or(cfg.task_budget) {
                    None => fut.as_mut().poll(&mut cx),
                    Some(b) => crate::budget::poll_with_budget(b, || fut.as_mut().poll(&mut cx)),
                };
                match r {
                    Poll::Ready(o) => {
                        sh.borrow_mut().ev.push(Ev::Ready);
                        return self.finish(Status::Returned, Some(o));
                    }
                    Poll::Pending => {
                        self.last_pending = true;
                        let woken = self.fw.woken();
                        sh.borrow_mut().ev.push(Ev::Pending { woken });
                    }
                }
            }
            Act::Complete(i) => {
                self.window_dirty = true;
                let w = {
                    let mut s = sh.borrow_mut();
                    s.released[i] = true;
                    s.ev.push(Ev::Release(i as u16));
                    s.wakers[i].take()
                };
                if let Some(w) = w {
                    w.wake();
                }
            }
            Act::Interrupt => {
                self.int_sent = true;
                sh.borrow_mut().int_sent = true;
                sh.borrow_mut().ev.push(Ev::Interrupt);
                self.intx.unwrap().try_send(InterruptSignal).expect("interrupt channel has room");
            }
        }
        None
    }
}

fn drive<Fut: Future<Output = Out>>(
    fut: Pin<&mut Fut>,
    sh: &Sh,
    cfg: &RunCfg,
    intx: Option<&mpsc::Sender<InterruptSignal>>,
) -> DriveRes {
    let mut d = Driver::new(fut, sh, cfg, intx);
    loop {
        if let Some(r) = d.step() {
            return r;
        }
    }
}

/// The fold closures must be written inline at the call so that their higher-ranked
/// signature is inferred from the method's bound.
#[macro_export]
macro_rules! fold_closure {
    ($sh:expr) => {
        move |mut seed, nd| {
            let id = nd.id;
            let gate = $crate::exec::start(&$sh, id);
            async move {
                gate.await;
                seed.push(id);
                seed
            }
            .boxed_local()
        }
    };
}

#[macro_export]
macro_rules! try_fold_closure {
    ($sh:expr) => {
        move |mut seed, nd| {
            let id = nd.id;
            let gate = $crate::exec::start(&$sh, id);
            async move {
                if gate.await {
                    seed.push(id);
                    Ok(seed)
                } else {
                    Err(id)
                }
            }
            .boxed_local()
        }
    };
}

macro_rules! run_fut {
    ($fut:expr, $sh:expr, $cfg:expr, $intx:expr) => {{
        let fut = $fut;
        let mut fut = std::pin::pin!(fut);
        drive(fut.as_mut(), $sh, $cfg, $intx)
    }};
}

/// A complete run on `g` with functions that finish at once, driven to its end here and now
/// (called from inside a user future of an outer run on the same graph).
pub fn nested_run(g: &FnGraph<Node>, kind: usize) -> crate::exec::NestedRun {
    use futures::Stream;
    use std::cell::RefCell;
    let n = g.graph.node_count();
    let order: RefCell<Vec<i32>> = RefCell::new(vec![]);
    // pending for two polls of the nested run: parks its waker, which the loop below wakes
    // between two polls (a future that wakes itself is polled again within the same poll)
    let parked: RefCell<Vec<Waker>> = RefCell::new(vec![]);
    struct YieldTwice<'a> {
        left: u8,
        id: i32,
        log: &'a RefCell<Vec<i32>>,
        parked: &'a RefCell<Vec<Waker>>,
    }
    impl Future for YieldTwice<'_> {
        type Output = ();
        fn poll(mut self: Pin<&mut Self>, cx: &mut Context<'_>) -> Poll<()> {
            if self.left > 0 {
                self.left -= 1;
                self.parked.borrow_mut().push(cx.waker().clone());
                Poll::Pending
            } else {
                self.log.borrow_mut().push(-(self.id + 1));
                Poll::Ready(())
            }
        }
    }
    let waker = Waker::from(FlagWaker::new());
    let mut cx = Context::from_waker(&waker);
    let horizon = 8 * n + 32;
    let mut completed = false;
    match kind {
        1 => {
            let fut = g.for_each_concurrent(None, |nd: &Node| {
                order.borrow_mut().push(nd.id as i32 + 1);
                order.borrow_mut().push(-(nd.id as i32 + 1));
                std::future::ready(())
            });
            let mut fut = std::pin::pin!(fut);
            for _ in 0..horizon {
                if fut.as_mut().poll(&mut cx).is_ready() {
                    completed = true;
                    break;
                }
            }
        }
        2 => {
            let fut = g.fold_async((), |(), nd| {
                order.borrow_mut().push(nd.id as i32 + 1);
                order.borrow_mut().push(-(nd.id as i32 + 1));
                async move {}.boxed_local()
            });
            let mut fut = std::pin::pin!(fut);
            for _ in 0..horizon {
                if fut.as_mut().poll(&mut cx).is_ready() {
                    completed = true;
                    break;
                }
            }
        }
        5 => {
            let fut = g.try_for_each_concurrent(None, |nd: &Node| {
                order.borrow_mut().push(nd.id as i32 + 1);
                order.borrow_mut().push(-(nd.id as i32 + 1));
                std::future::ready(Ok::<(), ()>(()))
            });
            let mut fut = std::pin::pin!(fut);
            for _ in 0..horizon {
                if fut.as_mut().poll(&mut cx).is_ready() {
                    completed = true;
                    break;
                }
            }
        }
        4 => {
            let fut = g.for_each_concurrent(None, |nd: &Node| {
                order.borrow_mut().push(nd.id as i32 + 1);
                YieldTwice { left: 2, id: nd.id as i32, log: &order, parked: &parked }
            });
            let mut fut = std::pin::pin!(fut);
            for _ in 0..3 * horizon {
                if fut.as_mut().poll(&mut cx).is_ready() {
                    completed = true;
                    break;
                }
                let ws: Vec<Waker> = parked.borrow_mut().drain(..).collect();
                for w in ws {
                    w.wake();
                }
            }
        }
        _ => {
            let st = g.stream();
            let mut st = std::pin::pin!(st);
            for _ in 0..horizon + n {
                match st.as_mut().poll_next(&mut cx) {
                    Poll::Ready(Some(fn_ref)) => {
                        order.borrow_mut().push(fn_ref.id as i32 + 1);
                        order.borrow_mut().push(-(fn_ref.id as i32 + 1));
                        drop(fn_ref);
                    }
                    Poll::Ready(None) => {
                        completed = true;
                        break;
                    }
                    Poll::Pending => {}
                }
            }
        }
    }
    crate::exec::NestedRun { kind: kind as u8, order: order.into_inner(), completed }
}

/// Executes one run of `cfg.api` on `g` under the choice list `prefix`.
pub fn run_on(g: &mut FnGraph<Node>, cfg: &RunCfg, prefix: Vec<u16>) -> RunRes {
    let n = g.graph.node_count();
    let mut fail = cfg.fail.clone();
    fail.resize(n, false);
    let sh: Sh = Shared::new(n, fail, crate::exec::Chooser::shared(prefix), cfg.imm_choice, cfg.base == Base::AllImmediate);
    sh.borrow_mut().selfwake_left = cfg.gate_tricks.0;
    sh.borrow_mut().sibling_left = cfg.gate_tricks.1;
    let r = catch_quiet(|| run_inner(g, cfg, &sh));
    let (status, out, polls, states) = match r {
        Ok(d) => (d.status, d.out, d.polls, d.states),
        Err(msg) => (Status::Panic(msg), None, 0, vec![]),
    };
    let (ev, taken, diverged) = {
        let mut s = sh.borrow_mut();
        let diverged = s.ch.borrow().diverged;
        s.nested = None;
        (std::mem::take(&mut s.ev), std::mem::take(&mut s.local), diverged)
    };
    let nested = std::mem::take(&mut sh.borrow_mut().nested_runs);
    RunRes { status, out, ev, taken, polls, states, diverged, nested }
}

fn run_inner(g: &mut FnGraph<Node>, cfg: &RunCfg, sh: &Sh) -> DriveRes {
    let (itx, mut irx) = mpsc::channel::<InterruptSignal>(4);
    let state = mk_state(cfg.strat, &mut irx);
    let opts = build_opts(cfg.opts_order, state, cfg.include, cfg.rev);
    let intx = if cfg.strat == Strat::Non { None } else { Some(&itx) };
    if cfg.mid_poll_int && cfg.interrupt && intx.is_some() {
        let itx = itx.clone();
        sh.borrow_mut().mid_int = Some(Box::new(move || itx.try_send(InterruptSignal).expect("interrupt channel has room")));
    }
    // (not under a constrained tokio budget: a nested run could not finish inside one poll there)
    if cfg.nested > 0 && !cfg.api.mutable && cfg.task_budget.is_none() && cfg.budgets.is_empty() {
        // the outer call borrows the graph shared (`&self` API): a user function may use it too
        let gp: *const FnGraph<Node> = &*g;
        sh.borrow_mut().nested_left = cfg.nested;
        sh.borrow_mut().nested = Some(Box::new(move |kind| nested_run(unsafe { &*gp }, kind)));
    }
    let limit = cfg.limit;
    let sh2 = sh.clone();
    let with = cfg.api.with;
    let unit = |()| Vec::<usize>::new();
    match (cfg.api.kind, cfg.api.mutable) {
        (Kind::ForEach, false) => {
            let f = move |nd: &Node| start(&sh2, nd.id).map(|_| ());
            if with {
                run_fut!(g.for_each_concurrent_with(limit, opts, f).map(|so| so_to_out(true, so, vec![], unit)), sh, cfg, intx)
            } else {
                run_fut!(g.for_each_concurrent(limit, f).map(|so| so_to_out(true, so, vec![], unit)), sh, cfg, intx)
            }
        }
        (Kind::ForEach, true) => {
            let f = move |nd: &mut Node| start(&sh2, nd.id).map(|_| ());
            if with {
                run_fut!(g.for_each_concurrent_mut_with(limit, opts, f).map(|so| so_to_out(true, so, vec![], unit)), sh, cfg, intx)
            } else {
                run_fut!(g.for_each_concurrent_mut(limit, f).map(|so| so_to_out(true, so, vec![], unit)), sh, cfg, intx)
            }
        }
        (Kind::TryForEach, false) => {
            let f = move |nd: &Node| {
                let id = nd.id;
                start(&sh2, id).map(move |ok| if ok { Ok(()) } else { Err(id) })
            };
            let m = |r: Result<StreamOutcome<()>, (StreamOutcome<()>, Vec<usize>)>| match r {
                Ok(so) => so_to_out(true, so, vec![], unit),
                Err((so, es)) => so_to_out(false, so, es, unit),
            };
            if with {
                run_fut!(g.try_for_each_concurrent_with(limit, opts, f).map(m), sh, cfg, intx)
            } else {
                run_fut!(g.try_for_each_concurrent(limit, f).map(m), sh, cfg, intx)
            }
        }
        (Kind::TryForEach, true) => {
            let f = move |nd: &mut Node| {
                let id = nd.id;
                start(&sh2, id).map(move |ok| if ok { Ok(()) } else { Err(id) })
            };
            let m = |r: Result<StreamOutcome<()>, (StreamOutcome<()>, Vec<usize>)>| match r {
                Ok(so) => so_to_out(true, so, vec![], unit),
                Err((so, es)) => so_to_out(false, so, es, unit),
            };
            if with {
                run_fut!(g.try_for_each_concurrent_mut_with(limit, opts, f).map(m), sh, cfg, intx)
            } else {
                run_fut!(g.try_for_each_concurrent_mut(limit, f).map(m), sh, cfg, intx)
            }
        }
        (Kind::Control, false) => {
            let f = move |nd: &Node| {
                let id = nd.id;
                start(&sh2, id).map(move |ok| if ok { ControlFlow::Continue(()) } else { ControlFlow::Break(id) })
            };
            let m = |r: ControlFlow<(StreamOutcome<()>, Vec<usize>), StreamOutcome<()>>| match r {
                ControlFlow::Continue(so) => so_to_out(true, so, vec![], unit),
                ControlFlow::Break((so, es)) => so_to_out(false, so, es, unit),
            };
            if with {
                run_fut!(g.try_for_each_concurrent_control_with(limit, opts, f).map(m), sh, cfg, intx)
            } else {
                run_fut!(g.try_for_each_concurrent_control(limit, f).map(m), sh, cfg, intx)
            }
        }
        (Kind::Control, true) => {
            let f = move |nd: &mut Node| {
                let id = nd.id;
                start(&sh2, id).map(move |ok| if ok { ControlFlow::Continue(()) } else { ControlFlow::Break(id) })
            };
            let m = |r: ControlFlow<(StreamOutcome<()>, Vec<usize>), StreamOutcome<()>>| match r {
                ControlFlow::Continue(so) => so_to_out(true, so, vec![], unit),
                ControlFlow::Break((so, es)) => so_to_out(false, so, es, unit),
            };
            if with {
                run_fut!(g.try_for_each_concurrent_control_mut_with(limit, opts, f).map(m), sh, cfg, intx)
            } else {
                run_fut!(g.try_for_each_concurrent_control_mut(limit, f).map(m), sh, cfg, intx)
            }
        }
        (Kind::Fold, false) => {
            let m = |so: StreamOutcome<Vec<usize>>| so_to_out(true, so, vec![], |v| v);
            if with {
                run_fut!(g.fold_async_with(Vec::<usize>::new(), opts, fold_closure!(sh2)).map(m), sh, cfg, intx)
            } else {
                run_fut!(g.fold_async(Vec::<usize>::new(), fold_closure!(sh2)).map(m), sh, cfg, intx)
            }
        }
        (Kind::Fold, true) => {
            let m = |so: StreamOutcome<Vec<usize>>| so_to_out(true, so, vec![], |v| v);
            if with {
                run_fut!(g.fold_async_mut_with(Vec::<usize>::new(), opts, fold_closure!(sh2)).map(m), sh, cfg, intx)
            } else {
                run_fut!(g.fold_async_mut(Vec::<usize>::new(), fold_closure!(sh2)).map(m), sh, cfg, intx)
            }
        }
        (Kind::TryFold, false) => {
            let m = |r: Result<StreamOutcome<Vec<usize>>, usize>| match r {
                Ok(so) => so_to_out(true, so, vec![], |v| v),
                Err(e) => Out { ok: false, has_outcome: false, errors: vec![e], ..Default::default() },
            };
            if with {
                run_fut!(g.try_fold_async_with(Vec::<usize>::new(), opts, try_fold_closure!(sh2)).map(m), sh, cfg, intx)
            } else {
                run_fut!(g.try_fold_async(Vec::<usize>::new(), try_fold_closure!(sh2)).map(m), sh, cfg, intx)
            }
        }
        (Kind::TryFold, true) => {
            let m = |r: Result<StreamOutcome<Vec<usize>>, usize>| match r {
                Ok(so) => so_to_out(true, so, vec![], |v| v),
                Err(e) => Out { ok: false, has_outcome: false, errors: vec![e], ..Default::default() },
            };
            if with {
                run_fut!(g.try_fold_async_mut_with(Vec::<usize>::new(), opts, try_fold_closure!(sh2)).map(m), sh, cfg, intx)
            } else {
                run_fut!(g.try_fold_async_mut(Vec::<usize>::new(), try_fold_closure!(sh2)).map(m), sh, cfg, intx)
            }
        }
    }
}
