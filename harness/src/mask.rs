//! Small bitset abstraction so that the oracles run on `u64` for the exhaustive
//! small-graph spaces and on a growable bitset for the wide families.
pub trait Mask: Clone + PartialEq + Send + Sync {
    fn zero(n: usize) -> Self;
    fn get(&self, i: usize) -> bool;
    fn set(&mut self, i: usize);
    fn or_with(&mut self, o: &Self);
    /// self & o != 0
    fn intersects(&self, o: &Self) -> bool;
    /// self & o
    fn and(&self, o: &Self) -> Self;
    /// self & !o
    fn and_not(&self, o: &Self) -> Self;
    fn any(&self) -> bool;
    fn count(&self) -> usize;
    fn list(&self) -> Vec<usize>;
}

impl Mask for u64 {
    fn zero(n: usize) -> Self {
        assert!(n <= 64);
        0
    }
    #[inline]
    fn get(&self, i: usize) -> bool {
        self >> i & 1 == 1
    }
    #[inline]
    fn set(&mut self, i: usize) {
        *self |= 1 << i;
    }
    #[inline]
    fn or_with(&mut self, o: &Self) {
        *self |= *o;
    }
    #[inline]
    fn intersects(&self, o: &Self) -> bool {
        self & o != 0
    }
    #[inline]
    fn and(&self, o: &Self) -> Self {
        self & o
    }
    #[inline]
    fn and_not(&self, o: &Self) -> Self {
        self & !o
    }
    #[inline]
    fn any(&self) -> bool {
        *self != 0
    }
    fn count(&self) -> usize {
        self.count_ones() as usize
    }
    fn list(&self) -> Vec<usize> {
        (0..64).filter(|i| self >> i & 1 == 1).collect()
    }
}

#[derive(Clone, PartialEq, Eq, Debug)]
pub struct BigMask(pub Vec<u64>);

impl Mask for BigMask {
    fn zero(n: usize) -> Self {
        BigMask(vec![0; n.div_ceil(64).max(1)])
    }
    fn get(&self, i: usize) -> bool {
        self.0[i / 64] >> (i % 64) & 1 == 1
    }
    fn set(&mut self, i: usize) {
        self.0[i / 64] |= 1 << (i % 64);
    }
    fn or_with(&mut self, o: &Self) {
        for (a, b) in self.0.iter_mut().zip(&o.0) {
            *a |= *b;
        }
    }
    fn intersects(&self, o: &Self) -> bool {
        self.0.iter().zip(&o.0).any(|(a, b)| a & b != 0)
    }
    fn and(&self, o: &Self) -> Self {
        BigMask(self.0.iter().zip(&o.0).map(|(a, b)| a & b).collect())
    }
    fn and_not(&self, o: &Self) -> Self {
        BigMask(self.0.iter().zip(&o.0).map(|(a, b)| a & !b).collect())
    }
    fn any(&self) -> bool {
        self.0.iter().any(|a| *a != 0)
    }
    fn count(&self) -> usize {
        self.0.iter().map(|a| a.count_ones() as usize).sum()
    }
    fn list(&self) -> Vec<usize> {
        let mut v = vec![];
        for (w, a) in self.0.iter().enumerate() {
            for b in 0..64 {
                if a >> b & 1 == 1 {
                    v.push(w * 64 + b);
                }
            }
        }
        v
    }
}

/// reach[i] = nodes reachable from i by a non-empty path. Edges must form a DAG.
pub fn closure_m<M: Mask>(n: usize, edges: &[(usize, usize)]) -> Vec<M> {
    // process nodes in reverse topological order so that each successor set is final
    let mut succ: Vec<Vec<usize>> = vec![vec![]; n];
    let mut indeg = vec![0usize; n];
    for &(a, b) in edges {
        succ[a].push(b);
        indeg[b] += 1;
    }
    let mut order = Vec::with_capacity(n);
    let mut q: Vec<usize> = (0..n).filter(|&i| indeg[i] == 0).collect();
    while let Some(x) = q.pop() {
        order.push(x);
        for &y in &succ[x] {
            indeg[y] -= 1;
            if indeg[y] == 0 {
                q.push(y);
            }
        }
    }
    let mut r: Vec<M> = (0..n).map(|_| M::zero(n)).collect();
    if order.len() != n {
        // not a DAG (only possible for a broken build()): plain fixpoint
        loop {
            let mut changed = false;
            for &(a, b) in edges {
                let mut m = r[a].clone();
                m.set(b);
                m.or_with(&r[b]);
                if m != r[a] {
                    r[a] = m;
                    changed = true;
                }
            }
            if !changed {
                return r;
            }
        }
    }
    for &x in order.iter().rev() {
        let mut m = M::zero(n);
        for &y in &succ[x] {
            m.set(y);
            m.or_with(&r[y]);
        }
        r[x] = m;
    }
    r
}

pub fn transpose_m<M: Mask>(n: usize, r: &[M]) -> Vec<M> {
    let mut t: Vec<M> = (0..n).map(|_| M::zero(n)).collect();
    for i in 0..n {
        for j in r[i].list() {
            t[j].set(i);
        }
    }
    t
}
