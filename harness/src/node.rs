//! The function type stored in every graph the harness builds.
//!
//! `Node` implements the public `DataAccessDyn` trait directly, so arbitrary
//! read/write declarations can be enumerated without `fn_meta` / `resman`.
use std::any::TypeId;

use fn_graph::{DataAccessDyn, TypeIds};

pub struct T0;
pub struct T1;
pub struct T2;
pub struct T3;

pub fn tid(k: usize) -> TypeId {
    match k {
        0 => TypeId::of::<T0>(),
        1 => TypeId::of::<T1>(),
        2 => TypeId::of::<T2>(),
        _ => TypeId::of::<T3>(),
    }
}

/// Access per data type: 0 = none, 1 = read, 2 = write.
#[derive(Debug, Clone, PartialEq, Eq)]
pub struct Node {
    pub id: usize,
    pub acc: Vec<u8>,
    /// Extra payload, only used to make two functions compare unequal (C12).
    pub tag: u8,
}

impl Node {
    pub fn new(id: usize, acc: Vec<u8>) -> Self {
        Node { id, acc, tag: 0 }
    }
}

impl DataAccessDyn for Node {
    fn borrows(&self) -> TypeIds {
        self.acc
            .iter()
            .enumerate()
            .filter(|(_, a)| **a == 1)
            .map(|(k, _)| tid(k))
            .collect()
    }

    fn borrow_muts(&self) -> TypeIds {
        self.acc
            .iter()
            .enumerate()
            .filter(|(_, a)| **a == 2)
            .map(|(k, _)| tid(k))
            .collect()
    }
}

/// The conflict predicate as the *property* states it: both access the same
/// type and at least one of them mutably. Computed from declarations only.
pub fn conflict(a: &[u8], b: &[u8]) -> bool {
    a.iter()
        .zip(b.iter())
        .any(|(x, y)| *x > 0 && *y > 0 && (*x == 2 || *y == 2))
}
