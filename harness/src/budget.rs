//! tokio's cooperative budget as an environment answer.
//!
//! Inside a runtime task every tokio channel / lock operation first asks
//! `coop::poll_proceed`; once the task's budget (128 per poll) is used up the
//! operation returns `Pending` and the task's waker is deferred. Outside a
//! runtime the budget is unconstrained, so the explorer would never see these
//! `Pending`s. `poll_with_budget(b, f)` runs `f` (one poll of the subject) inside
//! a current-thread runtime poll in which exactly `b` budget units are left:
//! the real tokio code path, no hook in the library.
use std::{cell::RefCell, task::Poll};

use tokio::runtime::{Builder, Runtime};

thread_local! {
    static RT: RefCell<Option<Runtime>> = const { RefCell::new(None) };
}

const INITIAL: u16 = 128;

pub fn poll_with_budget<R>(b: u16, f: impl FnOnce() -> R) -> R {
    RT.with(|rt| {
        let mut rt = rt.borrow_mut();
        let rt = rt.get_or_insert_with(|| Builder::new_current_thread().build().expect("runtime"));
        let mut f = Some(f);
        let mut res: Option<R> = None;
        rt.block_on(std::future::poll_fn(|cx| {
            if let Some(f) = f.take() {
                // burn the budget down to `b`
                let burn = INITIAL.saturating_sub(b);
                for _ in 0..burn {
                    match tokio::task::coop::poll_proceed(cx) {
                        Poll::Ready(restore) => restore.made_progress(),
                        Poll::Pending => break,
                    }
                }
                res = Some(f());
                // Yield once so that the runtime wakes the wakers that tokio deferred
                // during `f` (budget exhaustion defers the task's waker until the
                // scheduler yields).
                cx.waker().wake_by_ref();
                Poll::Pending
            } else {
                Poll::Ready(())
            }
        }));
        res.expect("subject polled")
    })
}

/// Self-test: with budget b, exactly b receives succeed in one poll.
pub fn selftest() -> Result<(), String> {
    use std::{sync::Arc, task::{Context, Waker}};
    use crate::exec::FlagWaker;
    for b in [0u16, 1, 2, 5] {
        let (tx, mut rx) = tokio::sync::mpsc::channel::<u32>(16);
        for i in 0..8 {
            tx.try_send(i).unwrap();
        }
        let fw = FlagWaker::new();
        let waker = Waker::from(Arc::clone(&fw));
        let got = poll_with_budget(b, || {
            let mut cx = Context::from_waker(&waker);
            let mut got = 0;
            while let Poll::Ready(Some(_)) = rx.poll_recv(&mut cx) {
                got += 1;
            }
            got
        });
        if got != b as usize {
            return Err(format!("budget {b}: {got} receives succeeded"));
        }
        if !fw.woken() {
            return Err(format!("budget {b}: exhausted budget did not wake the polling waker"));
        }
    }
    Ok(())
}
