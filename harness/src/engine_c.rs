//! Engine C: consumer explorer for the four `stream*` methods.
//!
//! The subject is the `Stream`; the environment is the consumer: when it polls,
//! in which order (and how many at a time) it drops the `FnRef`s it holds, when
//! it drops the stream itself, when the interrupt signal is sent.
use std::{
    pin::Pin,
    sync::Arc,
    task::{Context, Poll, Waker},
};

use fn_graph::{FnGraph, FnRef};
use futures::stream::{Stream, StreamExt};
use interruptible::{InterruptSignal, InterruptibilityState, PollOutcome};
use serde::{Deserialize, Serialize};
use tokio::sync::mpsc;

use crate::{
    engine_s::{Status, Strat},
    exec::{catch_quiet, Chooser, Ev, FlagWaker, Taken},
    node::Node,
};

#[derive(Clone, Copy, Debug, PartialEq, Eq, Hash, Serialize, Deserialize)]
pub enum SApi {
    Stream,
    StreamWith,
    StreamInterruptible,
    StreamWithInterruptible,
}

impl SApi {
    pub fn name(&self) -> &'static str {
        match self {
            SApi::Stream => "stream",
            SApi::StreamWith => "stream_with",
            SApi::StreamInterruptible => "stream_interruptible",
            SApi::StreamWithInterruptible => "stream_with_interruptible",
        }
    }

    pub fn all() -> [SApi; 4] {
        [SApi::Stream, SApi::StreamWith, SApi::StreamInterruptible, SApi::StreamWithInterruptible]
    }

    pub fn takes_opts(&self) -> bool {
        matches!(self, SApi::StreamWith | SApi::StreamWithInterruptible)
    }
}

#[derive(Clone, Copy, Debug, PartialEq, Eq, Hash, Serialize, Deserialize)]
pub enum CBase {
    /// choice 0: poll whenever allowed, otherwise drop the lowest held FnRef.
    Eager,
    /// drop every held FnRef (ascending) before polling again.
    DropFirst,
    /// hold everything until the stream is pending, then drop everything, then poll.
    HoldThenDropAll,
}

#[derive(Clone, Debug, PartialEq, Eq, Hash, Serialize, Deserialize)]
pub struct CCfg {
    pub api: SApi,
    pub rev: bool,
    pub strat: Strat,
    pub include: bool,
    pub interrupt: bool,
    pub spurious: u8,
    pub fresh_waker: bool,
    /// Offer "drop the stream" at every point after the first poll.
    pub drop_stream: bool,
    pub base: CBase,
    pub budgets: Vec<u16>,
    pub budget_polls: u8,
    #[serde(default)]
    pub opts_order: u8,
}

impl CCfg {
    pub fn plain(api: SApi) -> CCfg {
        CCfg {
            api,
            rev: false,
            strat: Strat::Non,
            include: true,
            interrupt: false,
            spurious: 0,
            fresh_waker: false,
            drop_stream: false,
            base: CBase::Eager,
            budgets: vec![],
            budget_polls: 0,
            opts_order: 0,
        }
    }

    pub fn short(&self) -> String {
        let mut s = self.api.name().to_string();
        if self.opts_order != 0 {
            s += &format!(" opts-order={}", self.opts_order);
        }
        if self.rev {
            s += " rev";
        }
        if self.strat != Strat::Non {
            s += &format!(" {:?} include={}", self.strat, self.include);
        }
        if self.spurious > 0 {
            s += &format!(" spurious<={}", self.spurious);
        }
        if self.fresh_waker {
            s += " fresh-waker";
        }
        if self.drop_stream {
            s += " drop-stream";
        }
        if self.base != CBase::Eager {
            s += &format!(" base={:?}", self.base);
        }
        if !self.budgets.is_empty() {
            s += &format!(" budgets={:?}x{}", self.budgets, self.budget_polls);
        }
        s
    }

    /// A sent signal changes what the stream yields.
    pub fn interruptible_effective(&self) -> bool {
        self.api == SApi::StreamWithInterruptible && self.strat.effective()
    }
}

#[derive(Clone, Debug, PartialEq, Eq, Serialize, Deserialize)]
pub enum CEnd {
    /// The stream returned None and every FnRef was dropped.
    Ended,
    /// No legitimate consumer action is left but the stream has not ended.
    Parked,
    /// The consumer dropped the stream and then every FnRef.
    StreamDropped,
}

#[derive(Clone, Debug)]
pub struct CRes {
    pub status: Status,
    pub end: Option<CEnd>,
    pub ev: Vec<Ev>,
    pub taken: Vec<Taken>,
    pub polls: usize,
    pub states: Vec<u64>,
    pub diverged: bool,
}

enum Item<'a> {
    Plain(FnRef<'a, Node>),
    NoInt(FnRef<'a, Node>),
    Int(Option<FnRef<'a, Node>>),
}

type BoxS<'a> = Pin<Box<dyn Stream<Item = Item<'a>> + 'a>>;

#[derive(Clone, Copy, Debug)]
enum Act {
    Poll,
    Spurious,
    Drop(usize),
    Interrupt,
    DropStream,
}

fn mix(h: u64, v: u64) -> u64 {
    (h ^ v).wrapping_mul(0x100000001b3).rotate_left(17)
}

pub fn run_c(g: &FnGraph<Node>, cfg: &CCfg, prefix: Vec<u16>) -> CRes {
    let mut ch = Chooser::new(prefix);
    let mut ev = Vec::with_capacity(64);
    let mut states = Vec::with_capacity(16);
    let mut polls = 0usize;
    let r = catch_quiet(|| run_c_inner(g, cfg, &mut ch, &mut ev, &mut states, &mut polls));
    let (status, end) = match r {
        Ok((s, e)) => (s, e),
        Err(msg) => (Status::Panic(msg), None),
    };
    CRes { status, end, ev, diverged: ch.diverged, taken: ch.taken, polls, states }
}

fn run_c_inner<'g>(
    g: &'g FnGraph<Node>,
    cfg: &CCfg,
    ch: &mut Chooser,
    ev: &mut Vec<Ev>,
    states: &mut Vec<u64>,
    polls: &mut usize,
) -> (Status, Option<CEnd>) {
    let n = g.graph.node_count();
    let (itx, mut irx) = mpsc::channel::<InterruptSignal>(4);
    let state = match cfg.strat {
        Strat::Non => InterruptibilityState::new_non_interruptible(),
        Strat::Ignore => InterruptibilityState::new_ignore_interruptions((&mut irx).into()),
        Strat::Finish => InterruptibilityState::new_finish_current((&mut irx).into()),
        Strat::NextN(k) => InterruptibilityState::new_poll_next_n((&mut irx).into(), k),
    };
    let opts = crate::engine_s::build_opts(cfg.opts_order, state, cfg.include, cfg.rev);
    fn po<'a>(p: PollOutcome<FnRef<'a, Node>>) -> Item<'a> {
        match p {
            PollOutcome::NoInterrupt(r) => Item::NoInt(r),
            PollOutcome::Interrupted(r) => Item::Int(r),
        }
    }
    // `held` is declared before the stream so that it is dropped after it unless the
    // explorer decides otherwise.
    let mut held: Vec<Option<FnRef<'_, Node>>> = (0..n).map(|_| None).collect();
    let mut s: Option<BoxS<'_>> = Some(match cfg.api {
        SApi::Stream => Box::pin(g.stream().map(Item::Plain)),
        SApi::StreamWith => Box::pin(g.stream_with(opts).map(Item::Plain)),
        SApi::StreamInterruptible => Box::pin(g.stream_interruptible().map(po)),
        SApi::StreamWithInterruptible => Box::pin(g.stream_with_interruptible(opts).map(po)),
    });
    let mut fw = FlagWaker::new();
    let mut first = true;
    let mut last_ready = false;
    let mut ended = false;
    let mut int_sent = !(cfg.interrupt && cfg.strat != Strat::Non);
    let mut dirty = false;
    let mut spurious = cfg.spurious;
    let mut budget_polls = cfg.budget_polls;
    let mut draining = false;
    let horizon = 8 * n + 32 + cfg.spurious as usize + 4 * cfg.budget_polls as usize;
    let mut acts: Vec<Act> = Vec::with_capacity(n + 4);
    let mut yielded = vec![false; n];
    loop {
        let alive = s.is_some() && !ended;
        let woken = fw.woken();
        let poll_ok = alive && (first || woken || last_ready);
        acts.clear();
        if poll_ok {
            acts.push(Act::Poll);
        }
        let mut first_drop = None;
        for i in 0..n {
            if held[i].is_some() {
                if first_drop.is_none() {
                    first_drop = Some(acts.len());
                }
                acts.push(Act::Drop(i));
            }
        }
        if alive && !int_sent && !dirty {
            acts.push(Act::Interrupt);
        }
        if alive && !poll_ok && spurious > 0 {
            acts.push(Act::Spurious);
        }
        if alive && !first && cfg.drop_stream {
            acts.push(Act::DropStream);
        }
        {
            let mut h = 0xcbf29ce484222325u64;
            for i in 0..n {
                h = mix(h, yielded[i] as u64 | (held[i].is_some() as u64) << 1);
            }
            h = mix(h, woken as u64 | (int_sent as u64) << 1 | (first as u64) << 2 | (last_ready as u64) << 3 | (ended as u64) << 4 | (s.is_some() as u64) << 5 | (dirty as u64) << 6);
            states.push(h);
        }
        if !acts.iter().any(|a| matches!(a, Act::Poll | Act::Drop(_))) {
            // nothing legitimate left to do
            let end = if s.is_none() {
                CEnd::StreamDropped
            } else if ended {
                CEnd::Ended
            } else {
                CEnd::Parked
            };
            drop(s);
            return (Status::Returned, Some(end));
        }
        let default = match cfg.base {
            CBase::Eager => 0,
            CBase::DropFirst => first_drop.unwrap_or(0),
            CBase::HoldThenDropAll => {
                if first_drop.is_none() {
                    draining = false;
                } else if !poll_ok {
                    draining = true;
                }
                if draining {
                    first_drop.unwrap_or(0)
                } else {
                    0
                }
            }
        };
        let c = ch.choose(acts.len(), default);
        match acts[c] {
            Act::Poll | Act::Spurious => {
                let sp = matches!(acts[c], Act::Spurious);
                if sp {
                    spurious -= 1;
                }
                let mut budget: Option<u16> = None;
                if !cfg.budgets.is_empty() && budget_polls > 0 {
                    let b = ch.choose(cfg.budgets.len() + 1, 0);
                    if b > 0 {
                        budget_polls -= 1;
                        budget = Some(cfg.budgets[b - 1]);
                        ev.push(Ev::Budget(cfg.budgets[b - 1]));
                    }
                }
                first = false;
                dirty = false;
                if cfg.fresh_waker {
                    fw = FlagWaker::new();
                }
                fw.clear();
                let waker = Waker::from(Arc::clone(&fw));
                let mut cx = Context::from_waker(&waker);
                ev.push(Ev::Poll { spurious: sp });
                *polls += 1;
                if *polls > horizon {
                    return (Status::Livelock, None);
                }
                let st = s.as_mut().unwrap();
                let p = match budget {
                    None => st.as_mut().poll_next(&mut cx),
                    Some(b) => crate::budget::poll_with_budget(b, || st.as_mut().poll_next(&mut cx)),
                };
                match p {
                    Poll::Ready(Some(item)) => {
                        last_ready = true;
                        let r = match item {
                            Item::Plain(r) | Item::NoInt(r) => {
                                ev.push(Ev::Yield(r.id as u16));
                                Some(r)
                            }
                            Item::Int(Some(r)) => {
                                ev.push(Ev::YieldInterrupted(r.id as u16));
                                Some(r)
                            }
                            Item::Int(None) => {
                                ev.push(Ev::InterruptedNone);
                                None
                            }
                        };
                        if let Some(r) = r {
                            let id = r.id;
                            yielded[id] = true;
                            if held[id].is_some() {
                                // double yield: keep the first, drop the second right away; the
                                // oracle reports it from the event log.
                                drop(r);
                            } else {
                                held[id] = Some(r);
                            }
                        }
                    }
                    Poll::Ready(None) => {
                        ev.push(Ev::StreamEnd);
                        ended = true;
                        last_ready = false;
                    }
                    Poll::Pending => {
                        last_ready = false;
                        ev.push(Ev::Pending { woken: fw.woken() });
                    }
                }
            }
            Act::Drop(i) => {
                dirty = true;
                ev.push(Ev::Drop(i as u16));
                held[i] = None;
            }
            Act::Interrupt => {
                int_sent = true;
                ev.push(Ev::Interrupt);
                itx.try_send(InterruptSignal).expect("interrupt channel has room");
            }
            Act::DropStream => {
                ev.push(Ev::DropSubject);
                s = None;
            }
        }
    }
}
