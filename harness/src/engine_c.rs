//! Engine C: consumer explorer for the four `stream*` methods.
//!
//! The subject is the `Stream`; the environment is the consumer: when it polls,
//! in which order (and how many at a time) it drops the `FnRef`s it holds, when
//! it drops the stream itself, when the interrupt signal is sent.
use std::{
    pin::Pin,
    sync::Arc,
    task::{Context, Poll, Waker},
};

use fn_graph::{FnGraph, FnRef};
use futures::stream::{Stream, StreamExt};
use crate::ishim::{mk_state, InterruptSignal};
use serde::{Deserialize, Serialize};
use tokio::sync::mpsc;

use crate::{
    engine_s::{Status, Strat},
    exec::{catch_quiet, Chooser, ChooserRef, Ev, FlagWaker, Taken},
    node::Node,
};

#[derive(Clone, Copy, Debug, PartialEq, Eq, Hash, Serialize, Deserialize)]
pub enum SApi {
    Stream,
    StreamWith,
    StreamInterruptible,
    StreamWithInterruptible,
}

impl SApi {
    pub fn name(&self) -> &'static str {
        match self {
            SApi::Stream => "stream",
            SApi::StreamWith => "stream_with",
            SApi::StreamInterruptible => "stream_interruptible",
            SApi::StreamWithInterruptible => "stream_with_interruptible",
        }
    }

    pub fn all() -> [SApi; 4] {
        [SApi::Stream, SApi::StreamWith, SApi::StreamInterruptible, SApi::StreamWithInterruptible]
    }

    pub fn takes_opts(&self) -> bool {
        matches!(self, SApi::StreamWith | SApi::StreamWithInterruptible)
    }
}

#[derive(Clone, Copy, Debug, PartialEq, Eq, Hash, Serialize, Deserialize)]
pub enum CBase {
    /// choice 0: poll whenever allowed, otherwise drop the lowest held FnRef.
    Eager,
    /// drop every held FnRef (ascending) before polling again.
    DropFirst,
    /// hold everything until the stream is pending, then drop everything, then poll.
    HoldThenDropAll,
    /// poll whenever allowed; when pending, drop the lowest held FnRef that is NOT in
    /// `CCfg::avoid` (a maximum antichain); when only members of it are held, drop all of them
    /// (ascending) before polling again: the largest batch of drops the graph allows.
    Avoid,
    /// as Avoid, but the final batch is dropped in descending order.
    AvoidRev,
}

#[derive(Clone, Debug, PartialEq, Eq, Hash, Serialize, Deserialize)]
pub struct CCfg {
    pub api: SApi,
    pub rev: bool,
    pub strat: Strat,
    pub include: bool,
    pub interrupt: bool,
    pub spurious: u8,
    pub fresh_waker: bool,
    /// Offer "drop the stream" at every point after the first poll.
    pub drop_stream: bool,
    pub base: CBase,
    pub budgets: Vec<u16>,
    pub budget_polls: u8,
    #[serde(default)]
    pub opts_order: u8,
    #[serde(default)]
    pub avoid: Vec<bool>,
    /// An earlier (future-API) run executed on the same graph value before the stream is created.
    #[serde(default)]
    pub pre: Option<Box<crate::engine_s::RunCfg>>,
    /// As RunCfg::task_budget.
    #[serde(default)]
    pub task_budget: Option<u16>,
}

impl CCfg {
    pub fn plain(api: SApi) -> CCfg {
        CCfg {
            api,
            rev: false,
            strat: Strat::Non,
            include: true,
            interrupt: false,
            spurious: 0,
            fresh_waker: false,
            drop_stream: false,
            base: CBase::Eager,
            budgets: vec![],
            budget_polls: 0,
            opts_order: 0,
            avoid: vec![],
            pre: None,
            task_budget: None,
        }
    }

    pub fn short(&self) -> String {
        let mut s = self.api.name().to_string();
        if let Some(p) = &self.pre {
            s = format!("[after {}] {s}", p.short());
        }
        if self.opts_order != 0 {
            s += &format!(" opts-order={}", self.opts_order);
        }
        if self.rev {
            s += " rev";
        }
        if self.strat != Strat::Non {
            s += &format!(" {:?} include={}", self.strat, self.include);
        }
        if self.spurious > 0 {
            s += &format!(" spurious<={}", self.spurious);
        }
        if self.fresh_waker {
            s += " fresh-waker";
        }
        if self.drop_stream {
            s += " drop-stream";
        }
        if self.base != CBase::Eager {
            s += &format!(" base={:?}", self.base);
        }
        if !self.budgets.is_empty() {
            s += &format!(" budgets={:?}x{}", self.budgets, self.budget_polls);
        }
        if let Some(b) = self.task_budget {
            s += &format!(" in-tokio-task(budget {b} per poll)");
        }
        s
    }

    /// A sent signal changes what the stream yields.
    pub fn interruptible_effective(&self) -> bool {
        self.api == SApi::StreamWithInterruptible && self.strat.effective()
    }
}

#[derive(Clone, Debug, PartialEq, Eq, Serialize, Deserialize)]
pub enum CEnd {
    /// The stream returned None and every FnRef was dropped.
    Ended,
    /// No legitimate consumer action is left but the stream has not ended.
    Parked,
    /// The consumer dropped the stream and then every FnRef.
    StreamDropped,
}

#[derive(Clone, Debug)]
pub struct CRes {
    pub status: Status,
    pub end: Option<CEnd>,
    pub ev: Vec<Ev>,
    pub taken: Vec<Taken>,
    pub polls: usize,
    pub states: Vec<u64>,
    pub diverged: bool,
}

enum Item<'a> {
    Plain(FnRef<'a, Node>),
    NoInt(FnRef<'a, Node>),
    Int(Option<FnRef<'a, Node>>),
}

type BoxS<'a> = Pin<Box<dyn Stream<Item = Item<'a>> + 'a>>;

#[derive(Clone, Copy, Debug)]
enum Act {
    Poll,
    Spurious,
    Drop(usize),
    Interrupt,
    DropStream,
}

fn mix(h: u64, v: u64) -> u64 {
    (h ^ v).wrapping_mul(0x100000001b3).rotate_left(17)
}

pub fn run_c(g: &FnGraph<Node>, cfg: &CCfg, prefix: Vec<u16>) -> CRes {
    let ch = Chooser::shared(prefix);
    let (itx, mut irx) = mpsc::channel::<InterruptSignal>(4);
    let mut out: Option<(Vec<Ev>, Vec<Taken>, usize, Vec<u64>)> = None;
    let r = catch_quiet(|| {
        let mut d = CDriver::new(g, cfg, &mut irx, itx, ch.clone());
        let r = loop {
            // a panic inside a step leaves the driver's log intact for the report
            match catch_quiet(|| d.step()) {
                Ok(Some(end)) => break Ok(end),
                Ok(None) => {}
                Err(m) => break Err(m),
            }
        };
        out = Some(d.take_logs());
        r
    });
    let (ev, taken, polls, states) = out.unwrap_or_default();
    let (status, end) = match r {
        Ok(Ok((s, e))) => (s, e),
        Ok(Err(msg)) | Err(msg) => (Status::Panic(msg), None),
    };
    let diverged = ch.borrow().diverged;
    CRes { status, end, ev, diverged, taken, polls, states }
}

/// The consumer explorer as a state machine: every `step` is one consumer decision.
pub struct CDriver<'g> {
    // the stream is declared before the FnRefs so that it is dropped first unless the explorer
    // decides otherwise
    s: Option<BoxS<'g>>,
    held: Vec<Option<FnRef<'g, Node>>>,
    cfg: &'g CCfg,
    itx: mpsc::Sender<InterruptSignal>,
    ch: ChooserRef,
    local: Vec<Taken>,
    ev: Vec<Ev>,
    states: Vec<u64>,
    polls: usize,
    n: usize,
    fw: Arc<FlagWaker>,
    first: bool,
    last_ready: bool,
    ended: bool,
    int_sent: bool,
    dirty: bool,
    spurious: u8,
    budget_polls: u8,
    draining: bool,
    horizon: usize,
    acts: Vec<Act>,
    yielded: Vec<bool>,
}

impl<'g> CDriver<'g> {
    pub fn new(g: &'g FnGraph<Node>, cfg: &'g CCfg, irx: &'g mut mpsc::Receiver<InterruptSignal>, itx: mpsc::Sender<InterruptSignal>, ch: ChooserRef) -> Self {
        let n = g.graph.node_count();
        let state = mk_state(cfg.strat, irx);
        let opts = crate::engine_s::build_opts(cfg.opts_order, state, cfg.include, cfg.rev);
        #[cfg(feature = "interruptible")]
        fn po<'a>(p: interruptible::PollOutcome<FnRef<'a, Node>>) -> Item<'a> {
            match p {
                interruptible::PollOutcome::NoInterrupt(r) => Item::NoInt(r),
                interruptible::PollOutcome::Interrupted(r) => Item::Int(r),
            }
        }
        let s: BoxS<'g> = match cfg.api {
            SApi::Stream => Box::pin(g.stream().map(Item::Plain)),
            SApi::StreamWith => Box::pin(g.stream_with(opts).map(Item::Plain)),
            #[cfg(feature = "interruptible")]
            SApi::StreamInterruptible => Box::pin(g.stream_interruptible().map(po)),
            #[cfg(feature = "interruptible")]
            SApi::StreamWithInterruptible => Box::pin(g.stream_with_interruptible(opts).map(po)),
            #[cfg(not(feature = "interruptible"))]
            SApi::StreamInterruptible | SApi::StreamWithInterruptible => panic!("stream_interruptible does not exist in the default-feature build"),
        };
        CDriver {
            s: Some(s),
            held: (0..n).map(|_| None).collect(),
            cfg,
            itx,
            ch,
            local: Vec::with_capacity(32),
            ev: Vec::with_capacity(64),
            states: Vec::with_capacity(16),
            polls: 0,
            n,
            fw: FlagWaker::new(),
            first: true,
            last_ready: false,
            ended: false,
            int_sent: !(cfg.interrupt && cfg.strat != Strat::Non),
            dirty: false,
            spurious: cfg.spurious,
            budget_polls: cfg.budget_polls,
            draining: false,
            horizon: 8 * n + 32 + cfg.spurious as usize + 4 * cfg.budget_polls as usize,
            acts: Vec::with_capacity(n + 4),
            yielded: vec![false; n],
        }
    }

    fn choose(&mut self, k: usize, default: usize) -> usize {
        let c = self.ch.borrow_mut().choose(k, default);
        self.local.push(Taken { c: c as u16, k: k as u16, d: default as u16 });
        c
    }

    /// (events, this run's own choices, polls, abstract states)
    pub fn take_logs(&mut self) -> (Vec<Ev>, Vec<Taken>, usize, Vec<u64>) {
        (std::mem::take(&mut self.ev), std::mem::take(&mut self.local), self.polls, std::mem::take(&mut self.states))
    }

    /// One consumer decision. Returns Some(..) when the run is over.
    pub fn step(&mut self) -> Option<(Status, Option<CEnd>)> {
        let n = self.n;
        let cfg = self.cfg;
        let alive = self.s.is_some() && !self.ended;
        let woken = self.fw.woken();
        let poll_ok = alive && (self.first || woken || self.last_ready);
        self.acts.clear();
        if poll_ok {
            self.acts.push(Act::Poll);
        }
        let mut first_drop = None;
        let mut last_drop = None;
        let mut first_outside = None;
        for i in 0..n {
            if self.held[i].is_some() {
                if first_drop.is_none() {
                    first_drop = Some(self.acts.len());
                }
                if first_outside.is_none() && !cfg.avoid.get(i).copied().unwrap_or(false) {
                    first_outside = Some(self.acts.len());
                }
                last_drop = Some(self.acts.len());
                self.acts.push(Act::Drop(i));
            }
        }
        if alive && !self.int_sent && !self.dirty {
            self.acts.push(Act::Interrupt);
        }
        if alive && !poll_ok && self.spurious > 0 {
            self.acts.push(Act::Spurious);
        }
        if alive && !self.first && cfg.drop_stream {
            self.acts.push(Act::DropStream);
        }
        {
            let mut h = 0xcbf29ce484222325u64;
            if n <= 64 {
                for i in 0..n {
                    h = mix(h, self.yielded[i] as u64 | (self.held[i].is_some() as u64) << 1);
                }
            } else {
                h = mix(h, self.ev.len() as u64);
            }
            h = mix(
                h,
                woken as u64 | (self.int_sent as u64) << 1 | (self.first as u64) << 2 | (self.last_ready as u64) << 3 | (self.ended as u64) << 4 | (self.s.is_some() as u64) << 5 | (self.dirty as u64) << 6,
            );
            self.states.push(h);
        }
        if !self.acts.iter().any(|a| matches!(a, Act::Poll | Act::Drop(_))) {
            // nothing legitimate left to do
            let end = if self.s.is_none() {
                CEnd::StreamDropped
            } else if self.ended {
                CEnd::Ended
            } else {
                CEnd::Parked
            };
            self.s = None;
            return Some((Status::Returned, Some(end)));
        }
        let default = match cfg.base {
            CBase::Eager => 0,
            CBase::DropFirst => first_drop.unwrap_or(0),
            CBase::HoldThenDropAll => {
                if first_drop.is_none() {
                    self.draining = false;
                } else if !poll_ok {
                    self.draining = true;
                }
                if self.draining {
                    first_drop.unwrap_or(0)
                } else {
                    0
                }
            }
            CBase::Avoid | CBase::AvoidRev => {
                if first_drop.is_none() {
                    self.draining = false;
                }
                if self.draining {
                    if cfg.base == CBase::Avoid { first_drop.unwrap_or(0) } else { last_drop.unwrap_or(0) }
                } else if poll_ok {
                    0
                } else if let Some(o) = first_outside {
                    o
                } else {
                    // only members of the antichain are held: drop them all
                    self.draining = true;
                    if cfg.base == CBase::Avoid { first_drop.unwrap_or(0) } else { last_drop.unwrap_or(0) }
                }
            }
        };
        let c = self.choose(self.acts.len(), default);
        match self.acts[c] {
            Act::Poll | Act::Spurious => {
                let sp = matches!(self.acts[c], Act::Spurious);
                if sp {
                    self.spurious -= 1;
                }
                let mut budget: Option<u16> = None;
                if !cfg.budgets.is_empty() && self.budget_polls > 0 {
                    let b = self.choose(cfg.budgets.len() + 1, 0);
                    if b > 0 {
                        self.budget_polls -= 1;
                        budget = Some(cfg.budgets[b - 1]);
                        self.ev.push(Ev::Budget(cfg.budgets[b - 1]));
                    }
                }
                self.first = false;
                self.dirty = false;
                if cfg.fresh_waker {
                    self.fw = FlagWaker::new();
                }
                self.fw.clear();
                let waker = Waker::from(Arc::clone(&self.fw));
                let mut cx = Context::from_waker(&waker);
                self.ev.push(Ev::Poll { spurious: sp });
                self.polls += 1;
                if self.polls > self.horizon {
                    return Some((Status::Livelock, None));
                }
                let st = self.s.as_mut().unwrap();
                let p = match budget.or(cfg.task_budget) {
                    None => st.as_mut().poll_next(&mut cx),
                    Some(b) => crate::budget::poll_with_budget(b, || st.as_mut().poll_next(&mut cx)),
                };
                match p {
                    Poll::Ready(Some(item)) => {
                        self.last_ready = true;
                        let r = match item {
                            Item::Plain(r) | Item::NoInt(r) => {
                                self.ev.push(Ev::Yield(r.id as u16));
                                Some(r)
                            }
                            Item::Int(Some(r)) => {
                                self.ev.push(Ev::YieldInterrupted(r.id as u16));
                                Some(r)
                            }
                            Item::Int(None) => {
                                self.ev.push(Ev::InterruptedNone);
                                None
                            }
                        };
                        if let Some(r) = r {
                            let id = r.id;
                            if id < n {
                                self.yielded[id] = true;
                                if self.held[id].is_some() {
                                    // double yield: keep the first, drop the second right away; the
                                    // oracle reports it from the event log.
                                    drop(r);
                                } else {
                                    self.held[id] = Some(r);
                                }
                            }
                        }
                    }
                    Poll::Ready(None) => {
                        self.ev.push(Ev::StreamEnd);
                        self.ended = true;
                        self.last_ready = false;
                    }
                    Poll::Pending => {
                        self.last_ready = false;
                        self.ev.push(Ev::Pending { woken: self.fw.woken() });
                    }
                }
            }
            Act::Drop(i) => {
                self.dirty = true;
                self.ev.push(Ev::Drop(i as u16));
                self.held[i] = None;
            }
            Act::Interrupt => {
                self.int_sent = true;
                self.ev.push(Ev::Interrupt);
                self.itx.try_send(InterruptSignal).expect("interrupt channel has room");
            }
            Act::DropStream => {
                self.ev.push(Ev::DropSubject);
                self.s = None;
            }
        }
        None
    }
}
